#!/bin/bash
# confirm_seed.sh <ID> [suffix] : confirms a seeded change living in /tmp/wt_<ID><suffix> (change applied, seed.diff, demo.py)
# 1. demo fails with the change, passes on /repo ; 2. pinned suite still passes with the change ; 3. our check result.
ID=$1; WT=/tmp/wt_$1$2; OUT=/var/tmp/seed_$1$2; mkdir -p $OUT
cd $WT || exit 2
mkdir -p $OUT/demo && cp $WT/demo.py $OUT/demo/demo.py && cd $OUT/demo   # run from a neutral directory (sys.path[0])
PYTHONPATH=$WT JAX_PLATFORMS=cpu /venv/bin/python demo.py > $OUT/demo_changed.log 2>&1; echo "demo with change: rc=$?"
PYTHONPATH=/repo JAX_PLATFORMS=cpu /venv/bin/python demo.py > $OUT/demo_orig.log 2>&1; echo "demo on /repo:   rc=$?"
cd $WT
git -C /repo apply --check $WT/seed.diff && echo "patch applies to /repo HEAD"
( REPO_DIR=$WT /verif/tools/run_baseline.sh $OUT/base > $OUT/base.out 2>&1; tail -3 $OUT/base.out ) &
cd /verif
JINNS_SRC=$WT VP_NO_EVIDENCE=1 VP_REPLAY_DIR=$OUT/replays VP_SHRINK_BUDGET=10 /venv/bin/python vp.py check $ID --tier quick > $OUT/check.out 2>&1; echo "our check rc=$?"
grep -E "VIOLATION|subcheck=|^\[" $OUT/check.out | head -12
wait
