#!/bin/bash
# refactor_check.sh <tree> <IDs...> : runs quick checks against a behaviour-preserving refactor; every rc must be 0
T=$1; shift
for p in "$@"; do
  JINNS_SRC=$T VP_NO_EVIDENCE=1 VP_REPLAY_DIR=/var/tmp/rf_replays_$(basename $T) /venv/bin/python vp.py check $p --tier quick > /var/tmp/rf_$(basename $T)_$p.log 2>&1; rc=$?
  echo "$(basename $T) $p rc=$rc $(grep -E '^\[' /var/tmp/rf_$(basename $T)_$p.log | tail -1)"
done
