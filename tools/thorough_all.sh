#!/bin/bash
# runs every thorough tier sequentially (for vp run); prints a one-line summary per property
for p in "$@"; do
  /venv/bin/python vp.py check $p --tier thorough > thorough_$p.log 2>&1; rc=$?
  echo "$p rc=$rc $(grep -E '^\[' thorough_$p.log | tail -1)"
done
