#!/bin/bash
# runs every quick check at the given VERIF_SEED; prints one line per property (rc + summary)
SEED=${1:-1}
for p in C01 C02 C03 C04 C05 C06 C07 C08 C09 C10 C11 C12 C13 C14 C15 C16 C17 C18 C19 C20; do
  VERIF_SEED=$SEED /venv/bin/python vp.py check $p --tier quick > /var/tmp/quick_${SEED}_$p.log 2>&1; rc=$?
  echo "$p seed=$SEED rc=$rc $(grep -E '^\[' /var/tmp/quick_${SEED}_$p.log | tail -1)"
done
