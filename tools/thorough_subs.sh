#!/bin/bash
# thorough_subs.sh ID[:sub] ... : thorough tier of whole properties or of single sub-checks, one after the other (no evidence)
for e in "$@"; do
  p=${e%%:*}; sub=""; [[ "$e" == *:* ]] && sub="--sub ${e#*:}"
  VP_NO_EVIDENCE=1 /venv/bin/python vp.py check $p --tier thorough $sub > /var/tmp/thor_${p}_${e#*:}.log 2>&1; rc=$?
  echo "$e rc=$rc $(grep -E '^\[' /var/tmp/thor_${p}_${e#*:}.log | tail -1)"
  grep -E "VIOLATION|HARNESS" /var/tmp/thor_${p}_${e#*:}.log | head -5
done
