#!/usr/bin/env python3
"""mkmut.py <NAME> <file relative to /repo> <old> <new> [count]  -> mutants/<NAME>.patch (unified diff, -p1)."""
import difflib, sys, os
name, rel, old, new = sys.argv[1:5]
occ = int(sys.argv[5]) if len(sys.argv) > 5 else 1
src = open(os.path.join('/repo', rel)).read()
assert src.count(old) >= 1, f"pattern not found ({src.count(old)})"
# replace the occ-th occurrence (1-based)
idx = -1
for _ in range(occ):
    idx = src.index(old, idx + 1)
dst = src[:idx] + new + src[idx + len(old):]
diff = difflib.unified_diff(src.splitlines(True), dst.splitlines(True), 'a/' + rel, 'b/' + rel)
here = os.path.dirname(os.path.dirname(os.path.abspath(__file__)))
open(os.path.join(here, 'mutants', name + '.patch'), 'w').write(''.join(diff))
print('wrote', name)
