#!/usr/bin/env python3
"""Writes /verif/MANIFEST.json from the table below (kept valid at all times)."""
import json
import os

HERE = os.path.dirname(os.path.dirname(os.path.abspath(__file__)))

TRUSTED = ("Trusted base: numpy/python arithmetic of the oracle, Hypothesis generation and shrinking, "
           "the reading of the property statement recorded in DESIGN.md section 4; ")

CLAIMED = {
    "C09": dict(
        category="exploration",
        technique="exhaustive small-scope enumeration + Hypothesis rule-based state machine against a dict epoch model",
        text="Every (store kind, n<=6/8, b<=n, key) history of 3*ceil(n/b)+2 get_batch calls is enumerated and checked "
             "against a dict-based epoch model (multiset invariance, slot identity, no repeat / full coverage per epoch, "
             "reshuffle immediately after coverage); random larger stores and a rule-based machine interleaving the public "
             "batch operations of the space-time generator extend it. Exhaustive for the small scope, sampled beyond; no "
             "claim of absence outside the explored scope.",
        note=TRUSTED + "reshuffle recognised from store order / key change; stores made of distinct points.",
        ref="4/C09"),
}

PENDING_REASON = "check not built yet in this revision (planned, see DESIGN.md 5b); not claimed until its check exists"


def main():
    props = [json.loads(l) for l in open(os.path.join(HERE, "properties.jsonl"))]
    checks = []
    na = []
    for p in props:
        pid = p["id"]
        c = CLAIMED.get(pid)
        if c is None:
            na.append({"property_id": pid, "reason": PENDING_REASON})
            continue
        checks.append({
            "property_id": pid,
            "quick_cmd": f"/venv/bin/python vp.py check {pid} --tier quick",
            "thorough_cmd": f"/venv/bin/python vp.py check {pid} --tier thorough",
            "evidence_file": f"/verif/evidence/{pid}.json",
            "replay_cmd_template": "/venv/bin/python vp.py replay {path}",
            "engine": "vpkit",
            "level_claimed": {"category": c["category"], "text": c["text"], "design_ref": c["ref"]},
            "level_note": c["note"],
            "technique": c["technique"],
        })
    man = {
        "version": 1,
        "setup_cmd": "/venv/bin/python -c 'import hypothesis' 2>/dev/null || /venv/bin/pip install --no-index "
                     "--find-links /opt/veriftools/wheels hypothesis; /venv/bin/python -c 'import jsonschema' 2>/dev/null "
                     "|| /venv/bin/pip install --no-index --find-links /opt/veriftools/wheels jsonschema || true",
        "hooks": {
            "guard": "JINNS_VERIF",
            "enable": "checks run workers with JINNS_VERIF=1 and PYTHONPATH=/repo (pure Python, no build step)",
            "baseline_off_cmd": "cd /repo && env -u JINNS_VERIF /venv/bin/python -m pytest -ra -q -p no:cacheprovider "
                                "--timeout=900 --continue-on-collection-errors",
            "source_commits": HOOK_COMMITS,
            "add_only": True,
        },
        "engines": [{
            "name": "vpkit",
            "path": "/verif/vpkit",
            "serves_properties": [c["property_id"] for c in checks],
            "kind_free_text": "property-based testing harness: Hypothesis strategies / rule-based state machines / "
                              "exhaustive small-scope enumeration over plain-JSON cases, explicit oracles, sharded "
                              "fresh-interpreter workers, replay files, known-findings matching",
        }],
        "checks": checks,
        "not_applicable": na,
        "notes": "All checks: exit 0 held / exit 1 + VIOLATION line / exit 2 harness error (no VIOLATION). "
                 "VERIF_SEED seeds Hypothesis (seed*1000+shard). JINNS_SRC overrides the source tree (default /repo).",
    }
    with open(os.path.join(HERE, "MANIFEST.json"), "w") as f:
        json.dump(man, f, indent=1)
    try:
        import jsonschema

        jsonschema.validate(man, json.load(open("/root/.vp/MANIFEST.schema.json")))
        print("manifest valid;", len(checks), "claimed,", len(na), "not claimed")
    except ImportError:
        print("jsonschema not available; manifest written", len(checks), len(na))


HOOK_COMMITS = []

if __name__ == "__main__":
    main()
