#!/usr/bin/env python3
"""Writes /verif/MANIFEST.json from the table below (kept valid at all times)."""
import json
import os

HERE = os.path.dirname(os.path.dirname(os.path.abspath(__file__)))

TRUSTED = ("Trusted base: numpy/python arithmetic of the oracle, Hypothesis generation and shrinking, "
           "the reading of the property statement recorded in DESIGN.md section 4; ")

def _c(technique, text, ref, category="exploration", note=""):
    return dict(category=category, technique=technique, text=text, note=TRUSTED + note, ref=ref)


CLAIMED = {
    "C01": _c("Hypothesis-generated analytic fields + exhaustive monomial basis against closed-form derivatives",
              "Every reverse-mode operator (and the forward-mode ones on grid callables) is compared with closed-form numpy "
              "derivatives of generated fields: exhaustively on all monomials of degree <=3 (which determine a constant-"
              "coefficient operator of order <=2) in every component for d<=2 (quick) / d<=4 (thorough), +-time, plus random "
              "trig+quadratic+Gaussian fields; unrelated parameters varied (bitwise invariance). Sampled, not a proof.",
              "4/C01", note="closed-form derivatives independent of JAX autodiff."),
    "C02": _c("Hypothesis-generated candidate solutions against closed-form residuals + exact-solution oracle",
              "Residual of each built-in equation on random analytic fields vs the documented expression evaluated with "
              "closed-form derivatives (every parameter, Tmax, key layouts), and exact solutions of each equation must give a "
              "vanishing residual. Exploration over generated inputs.", "4/C02",
              note="GLV sign convention pinned as stated in evidence assumptions."),
    "C03": _c("Hypothesis-generated loss specs against a point-by-point numpy reference + metamorphic relations",
              "total==sum(terms), exact zeros of unconfigured terms, dynamic term vs python-loop reference, linearity in the "
              "weight, permutation invariance, halves average, on generated ODE/stationary/non-stationary losses.", "4/C03"),
    "C04": _c("Hypothesis-generated boundary specs against a per-facet numpy reference with geometric outward normals",
              "Boundary term vs sum over facets of mean weighted squared mismatch with the outward normal derived from the "
              "facet geometry; global and per-facet specifications, None facets, component selections, scalar/(1,) f "
              "invariance, 1-vs-k time points invariance, border batches from the real generators.", "4/C04"),
    "C05": _c("Hypothesis-generated specs against numpy loops written from the statement",
              "Initial-condition, normalisation and observation terms (incl. observed equation parameters row by row) vs "
              "reference loops, networks depending on equation parameters so that misalignment is visible.", "4/C05"),
    "C06": _c("exhaustive enumeration of the (term x group) mask space under one compiled gradient + sampled eager runs",
              "All 2^9 / 2^12 (and 2^15 in the thorough tier) mask assignments are checked against reference gradient blocks "
              "(cross-checked by finite differences); exact zeros per unselected pair; values bitwise mask-independent; "
              "string/tree/default equivalence enumerated.", "4/C06",
              note="reference blocks come from jax.grad of the library loss with everything selected, validated by finite differences."),
    "C09": _c("exhaustive small-scope enumeration + Hypothesis rule-based state machine against a dict epoch model",
              "Every (store kind, n<=6/8, b<=n, key) history of 3*ceil(n/b)+2 get_batch calls is enumerated and checked "
              "against a dict-based epoch model (multiset invariance, slot identity, no repeat / full coverage per epoch, "
              "reshuffle immediately after coverage); random larger stores and a rule-based machine interleaving the public "
              "batch operations of the space-time generator extend it. Exhaustive for the small scope, sampled beyond.",
              "4/C09", note="reshuffle recognised from store order / key change; stores made of distinct points."),
    "C13": _c("Hypothesis-generated E x U system specs against a numpy composition of single-network references; differential 1x1 vs plain loss",
              "SystemLossODE / SystemLossPDE with any number of equations and unknowns, key names equal or different, weights "
              "scalar / per-key dict / None / omitted, per-unknown constraints: dynamic term vs sum_e w_e mean residual^2 "
              "with the documented (t, x, networks, parameters) argument order (equations use t and x asymmetrically), "
              "every other term vs sum_u w_u * single-network reference; 1x1 system vs plain loss.", "4/C13"),
    "C20": _c("Hypothesis-generated losses / generator states with deep argument snapshots; differential eager vs jit vs value_and_grad",
              "Deep snapshots (structure, bytes of every leaf, copies of reachable dicts) of params, batch, loss and generator "
              "before/after evaluate()/get_batch() must be identical; repeated calls bit-identical; eager vs jit vs primal of "
              "value_and_grad within rtol 1e-9; get_batch eager vs jit exact.", "4/C20"),
    "C08": _c("Hypothesis-generated generator configurations + exhaustive enumeration of grid counts, validity predicates",
              "Counts, shapes, closed-interval membership, facet geometry and 1-D end points of every generator kind over "
              "random boxes (negative, tiny, large), sizes, keys, methods and get_batch histories across reshuffles, in float32 "
              "and x64; grid counts enumerated for every n<=120/300 on 8 intervals.", "4/C08"),
    "C14": _c("Hypothesis-generated space-time configurations; structural predicate + differential against the factors",
              "Interior and per-facet border batches vs the product (time-major) or pairing of the temporal / spatial / "
              "border factors drawn from the same generator state, over histories of batches.", "4/C14"),
    "C15": _c("Hypothesis-generated tables with injective row encodings; row-identity oracle",
              "Observation batches (inputs, values, observed parameters) must come from one table row; parameter samples "
              "per key from its own range or table (both shapes, table wins); multi-network loaders aligned per network "
              "with empty entries for networks without observations.", "4/C15"),
    "C16": _c("Hypothesis-generated RAR configurations driven iteration by iteration against a python schedule model",
              "Schedule (start + k*update_every), counts n_start + J*selected per axis, rar_iter_nb, capacity stop, never "
              "above the store, observed after every iteration and through jinns.solve.", "4/C16"),
    "C17": _c("Hypothesis-generated RAR histories; per-step oracle from store snapshots and recomputed closed-form residuals",
              "Per refinement step: candidates in the domain, reported residuals == recomputed, chosen == arg-top-k "
              "(components of top pairs for product domains), written points == chosen candidates, active slots untouched, "
              "active multiset preserved across reshuffles.", "4/C17",
              note="candidates are exposed by the guarded hook JINNS_VERIF=1 and re-validated by the harness."),
    "C07": _c("Hypothesis-generated training programs; differential against an eager textbook reference loop",
              "The whole 9-tuple of jinns.solve (loss / term / tracked histories, final parameters, optimizer state, returned "
              "generator state exactly, iteration count) vs the eager loop of the statement, over loss kinds, optimizers "
              "(incl. chained / scheduled), batch sizes that do and do not divide the stores, auxiliary generators, "
              "tracked-parameter specifications; resumed runs solve(n1);solve(n2) == loop(n1+n2) == solve(n1+n2).", "4/C07",
              note="jitted vs eager compared with rtol 1e-7 in x64."),
    "C18": _c("exhaustive fault enumeration (every iteration index x origin) with a harness-owned deterministic injector; differential against the reference loop",
              "Every fault position k in 0..n-1 for each origin (optimizer update / gradient of an nn leaf or of an equation "
              "parameter, loss value) is injected through an optax transformation with a step counter; returned parameters, "
              "NaN-freeness, histories up to k and untouched later entries vs the reference loop with the same injection.",
              "4/C18", category="fault_enumeration"),
    "C19": _c("exhaustive enumeration of validation scripts through one compiled solve + Hypothesis-generated ValidationLoss histories against a python model",
              "All (stop, improved) scripts of length <=3 (quick) / <=4 (thorough) for call_every 1..3: invocation schedule, "
              "post-update parameters (fingerprint criterion), carried-forward criterion, stop right after the first request, "
              "best parameters; ValidationLoss improvement / patience / early-stopping model on harness-chosen loss "
              "sequences with its own generators, directly and through solve.", "4/C19"),
    "C10": _c("Hypothesis-generated architectures / transforms / calling conventions against an independent numpy forward pass",
              "create_PINN / create_SPINN / create_HYPERPINN wrappers vs numpy forward passes built from the weight leaves: "
              "transform composition order, output slices, shared outputs, trailing component axis, scalar / (1,) time, bare "
              "network parameters, SPINN tensor grid with per-output embedding blocks, hyper-network weight generation in "
              "leaf order.", "4/C10"),
    "C11": _c("Hypothesis-generated separable networks; differential SPINN (forward mode, grid) vs pointwise twin PINN (reverse mode)",
              "Operators, built-in dynamic losses and boundary / initial / normalisation / dynamic loss terms evaluated on "
              "a SPINN are compared, grid index by grid index (resp. on the explicit product batch), with the same function "
              "wrapped as a genuine PINN whose module evaluates sum_r prod_d f_d at one point with the same weights.",
              "4/C11"),
    "C12": _c("Hypothesis-generated parameter batches / heterogeneity maps against a per-sample numpy loop",
              "Every term of single losses with any non-empty subset of batched keys vs per-sample reference; caller's "
              "parameters unchanged; heterogeneous keys replaced inside the dynamic term only; gradient w.r.t. an "
              "unbatched parameter vs finite differences of the reference.", "4/C12"),
}

PENDING_REASON = "check not built yet in this revision (planned, see DESIGN.md 5b); not claimed until its check exists"


def main():
    props = [json.loads(l) for l in open(os.path.join(HERE, "properties.jsonl"))]
    checks = []
    na = []
    for p in props:
        pid = p["id"]
        c = CLAIMED.get(pid)
        if c is None:
            na.append({"property_id": pid, "reason": PENDING_REASON})
            continue
        checks.append({
            "property_id": pid,
            "quick_cmd": f"/venv/bin/python vp.py check {pid} --tier quick",
            "thorough_cmd": f"/venv/bin/python vp.py check {pid} --tier thorough",
            "evidence_file": f"/verif/evidence/{pid}.json",
            "replay_cmd_template": "/venv/bin/python vp.py replay {path}",
            "engine": "vpkit",
            "level_claimed": {"category": c["category"], "text": c["text"], "design_ref": c["ref"]},
            "level_note": c["note"],
            "technique": c["technique"],
        })
    man = {
        "version": 1,
        "setup_cmd": "/venv/bin/python -c 'import hypothesis' 2>/dev/null || /venv/bin/pip install --no-index "
                     "--find-links /opt/veriftools/wheels hypothesis; /venv/bin/python -c 'import jsonschema' 2>/dev/null "
                     "|| /venv/bin/pip install --no-index --find-links /opt/veriftools/wheels jsonschema || true",
        "hooks": {
            "guard": "JINNS_VERIF",
            "enable": "checks run workers with JINNS_VERIF=1 and PYTHONPATH=/repo (pure Python, no build step)",
            "baseline_off_cmd": "cd /repo && env -u JINNS_VERIF /venv/bin/python -m pytest -ra -q -p no:cacheprovider "
                                "--timeout=900 --continue-on-collection-errors",
            "source_commits": HOOK_COMMITS,
            "add_only": True,
        },
        "engines": [{
            "name": "vpkit",
            "path": "/verif/vpkit",
            "serves_properties": [c["property_id"] for c in checks],
            "kind_free_text": "property-based testing harness: Hypothesis strategies / rule-based state machines / "
                              "exhaustive small-scope enumeration over plain-JSON cases, explicit oracles, sharded "
                              "fresh-interpreter workers, replay files, known-findings matching",
        }],
        "checks": checks,
        "not_applicable": na,
        "notes": "All checks: exit 0 held / exit 1 + VIOLATION line / exit 2 harness error (no VIOLATION). "
                 "VERIF_SEED seeds Hypothesis (seed*1000+shard). JINNS_SRC overrides the source tree (default /repo).",
    }
    with open(os.path.join(HERE, "MANIFEST.json"), "w") as f:
        json.dump(man, f, indent=1)
    try:
        import jsonschema

        jsonschema.validate(man, json.load(open("/root/.vp/MANIFEST.schema.json")))
        print("manifest valid;", len(checks), "claimed,", len(na), "not claimed")
    except ImportError:
        print("jsonschema not available; manifest written", len(checks), len(na))


HOOK_COMMITS = ["0ed4b87"]

if __name__ == "__main__":
    main()
