#!/bin/bash
# Runs the repository's pinned test suite (guard OFF) and compares with /root/.vp/BASELINE.json stable_pass.
# usage: tools/run_baseline.sh [outdir]
OUT=${1:-$(mktemp -d /var/tmp/vp_baseline.XXXXXX)}
mkdir -p "$OUT"
unset JINNS_VERIF
cd ${REPO_DIR:-/repo} && PYTHONPATH=${REPO_DIR:-/repo} /venv/bin/python -m pytest -ra -q -p no:cacheprovider --timeout=900 --continue-on-collection-errors --junitxml="$OUT/junit.xml" > "$OUT/pytest.log" 2>&1
/venv/bin/python - "$OUT/junit.xml" <<'PY'
import json, sys, xml.etree.ElementTree as ET
base = set(json.load(open('/root/.vp/BASELINE.json'))['stable_pass'])
root = ET.parse(sys.argv[1]).getroot()
passed = set()
for tc in root.iter('testcase'):
    name = tc.get('classname') + '::' + tc.get('name')
    bad = any(ch.tag in ('failure', 'error', 'skipped') for ch in tc)
    if not bad:
        passed.add(name)
missing = sorted(base - passed)
print(f"baseline stable_pass={len(base)} passed_now={len(passed)} missing_from_baseline={len(missing)}")
for m in missing:
    print("  MISSING", m)
sys.exit(1 if missing else 0)
PY
rc=$?
echo "log: $OUT/pytest.log"
exit $rc
