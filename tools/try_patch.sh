#!/bin/bash
# try_patch.sh <ID> <patch file> [extra vp.py args] : runs the quick check of <ID> against a scratch copy of /repo with the patch applied
ID=$1; PATCH=$(readlink -f $2); shift 2
T=$(mktemp -d /var/tmp/try_XXXX)
rsync -a --exclude .git /repo/ $T/src/ && (cd $T/src && patch -p1 -s < $PATCH) || { echo "patch failed"; rm -rf $T; exit 2; }
cd /verif
JINNS_SRC=$T/src VP_NO_EVIDENCE=1 VP_REPLAY_DIR=$T/replays VP_SHRINK_BUDGET=10 /venv/bin/python vp.py check $ID --tier quick "$@" 2>&1 | grep -E "subcheck=|^\[|HARNESS"
rc=${PIPESTATUS[0]}
rm -rf $T
echo "rc=$rc"
