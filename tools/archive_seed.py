#!/usr/bin/env python3
"""archive_seed.py <ID> <name> <caught:yes|no|after-strengthening> "<needs>" "<caught by / notes>" [suffix]"""
import json, os, shutil, sys
pid, name, caught, needs, notes = sys.argv[1:6]
suffix = sys.argv[6] if len(sys.argv) > 6 else ""
wt = f"/tmp/wt_{pid}{suffix}"
out = f"/var/tmp/seed_{pid}{suffix}"
dst = f"/verif/seeded/{pid}-{name}"
os.makedirs(dst, exist_ok=True)
shutil.copy(f"{wt}/seed.diff", f"{dst}/patch.diff")
shutil.copy(f"{wt}/demo.py", f"{dst}/demo.py")
if os.path.exists(f"{wt}/note.md"):
    shutil.copy(f"{wt}/note.md", f"{dst}/note.md")
def rd(p):
    try: return open(p).read()
    except Exception: return ""
base = rd(f"{out}/base.out")
chk = rd(f"{out}/check.out")
meta = {
    "property": pid, "name": name, "written_by": "independent sub-agent given only the property text and a scratch worktree",
    "needs_to_manifest": needs,
    "confirmed": {
        "demo_fails_with_change_passes_without": "ran demo.py with PYTHONPATH=<worktree with change> (non-zero exit) and PYTHONPATH=/repo (exit 0)",
        "pinned_suite_with_change": [l for l in base.splitlines() if l.startswith("baseline")][:1],
        "ran": [f"tools/confirm_seed.sh {pid} {suffix}".strip()],
    },
    "caught_by_quick_check": caught,
    "check_output": [l.strip() for l in chk.splitlines() if "subcheck=" in l or l.startswith("[")][:8],
    "notes": notes,
}
json.dump(meta, open(f"{dst}/meta.json", "w"), indent=1)
print("archived", dst)
