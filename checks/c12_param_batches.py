"""C12 - per-sample equation parameters and heterogeneous parameters are aligned."""
from __future__ import annotations

import copy

import numpy as np

from vpkit import SubCheck, fail, ok
from vpkit.problems import build_single, ref_terms
from vpkit.strats import single_spec

PROPERTY = "C12"
LEVEL = "exploration"
RULE = (
    "cases = loss specs (ODE / stationary / non-stationary incl. cartesian space-time batches, and 2-unknown systems) "
    "whose batch carries per-sample values for a non-empty subset of the scalar-like equation parameters (any subset; "
    "other keys of shapes (), (1,), (2,) unbatched), network using theta/phi in its output transform, equation using "
    "all parameters, optional heterogeneity map (any subset of keys -> a*param + b*first coordinate [+ c*base value of another declared "
    "key], other keys None or absent); the dynamic loss is also evaluated eagerly on one point (value + caller's eq_params "
    "untouched). Oracle: per-sample numpy loop: row i of every batched key, the caller's value of every other key; "
    "heterogeneous keys replaced inside the equation only (the network still sees the raw value); gradient w.r.t. an "
    "unbatched parameter == finite difference of the reference. Non-trivial = at least one batched and one unbatched "
    "key, batch >= 2 rows (rows are distinct by construction), and when a heterogeneity map is present at least one "
    "function is non-constant over the batch. Sub-check large_param_batches: the same oracle with 33..2050 batch rows "
    "(block-size boundaries of chunked evaluation; seeded lattice values)."
)
ASSUMPTIONS = ["tolerance 1e-9*(1+|value|) for values, 1e-5 relative for finite-difference gradients",
               "normalisation + parameter batch is outside the domain; border batch has as many rows as the interior batch"]
TOL = 1e-9
NAMES = {"eq": "dyn_loss", "ic": "initial_condition", "boundary": "boundary_loss", "obs": "observations"}


def run_case(case):
    import jax
    import jinns

    spec = case["spec"]
    labels = [spec["kind"]]
    if spec["kind"] == "nonstatio":
        labels.append("cartesian" if spec["batch"].get("cartesian", True) else "paired")
    want, _ = ref_terms(spec)
    loss, params, batch = build_single(spec)
    before = {k: np.asarray(v).copy() for k, v in params.eq_params.items()}
    total, terms = loss.evaluate(params, batch)
    for k, v in params.eq_params.items():
        if not np.array_equal(np.asarray(v), before[k]):
            return fail("caller-params-modified", {"key": k}, labels=labels)
    for short, name in NAMES.items():
        if spec.get(short) is None:
            continue
        got, w = float(terms[name]), want[name]
        if not abs(got - w) <= TOL * (1 + abs(w) + abs(got)):
            het = ":hetero" if (spec.get("hetero") and short == "eq") else ""
            return fail(f"{name}-value-with-param-batch{het}", {"got": got, "want": w, "batched": sorted(spec["param_batch"]),
                                                               "kind": spec["kind"]}, labels=labels)
        labels.append(short)
    batched = set(spec["param_batch"])
    unb = [k for k in spec["eq_params"] if k not in batched]
    N = len(next(iter(spec["param_batch"].values())))
    nt = len(batched) >= 1 and len(unb) >= 1 and N >= 2
    if spec.get("hetero"):
        labels.append("hetero")
    # gradient routing w.r.t. one unbatched scalar parameter of the dynamic term
    scal = [k for k in unb if not isinstance(spec["eq_params"][k], list)]
    if spec.get("eq") and scal:
        k = scal[case["pick"] % len(scal)]
        dk = {"ode": jinns.parameters.DerivativeKeysODE, "statio": jinns.parameters.DerivativeKeysPDEStatio,
              "nonstatio": jinns.parameters.DerivativeKeysPDENonStatio}[spec["kind"]].from_str(params=params, dyn_loss="both")
        l2, _, _ = build_single(spec, derivative_keys=dk)
        g = jax.grad(lambda p: l2.evaluate(p, batch)[1]["dyn_loss"])(params)
        got = float(np.sum(np.asarray(g.eq_params[k])))
        h = 1e-5
        sp, sm = copy.deepcopy(spec), copy.deepcopy(spec)
        sp["eq_params"][k] += h
        sm["eq_params"][k] -= h
        fd = (ref_terms(sp)[0]["dyn_loss"] - ref_terms(sm)[0]["dyn_loss"]) / (2 * h)
        if not abs(got - fd) <= 1e-5 * (1 + abs(fd)):
            return fail("gradient-wrt-unbatched-parameter", {"key": k, "got": got, "fd_of_reference": fd}, labels=labels)
        labels.append("grad")
    return ok(nontrivial=nt, labels=labels, detail={"batched": sorted(batched), "unbatched": unb})


def strat():
    from hypothesis import strategies as st

    @st.composite
    def s(draw):
        spec = draw(single_spec(want=("eq",), maybe=("ic", "boundary", "obs"), param_batch="yes", hetero=True,
                                obs_params=False, nmax=5, extra=(1, 2), nmin=2))
        return {"spec": spec, "pick": draw(st.integers(0, 3))}

    return s()


def strat_big():
    from hypothesis import strategies as st

    @st.composite
    def s(draw):
        spec = draw(single_spec(want=("eq",), maybe=("ic", "boundary", "obs"), param_batch="yes", hetero=True,
                                obs_params=False, extra=(1, 2), big="always"))
        return {"spec": spec, "pick": draw(st.integers(0, 3))}

    return s()


def run_hetero(case):
    """heterogeneity without a parameter batch: declared keys replaced inside the equation only."""
    spec = case["spec"]
    labels = [spec["kind"], "hetero-only"]
    want, _ = ref_terms(spec)
    loss, params, batch = build_single(spec)
    got = float(loss.evaluate(params, batch)[1]["dyn_loss"])
    if not abs(got - want["dyn_loss"]) <= TOL * (1 + abs(got) + abs(want["dyn_loss"])):
        return fail("dyn_loss-value-hetero", {"got": got, "want": want["dyn_loss"], "hetero": spec["hetero"]}, labels=labels)
    # the dynamic loss evaluated eagerly on one point: same residual, caller's parameters untouched
    import jax.numpy as jnp

    from vpkit.problems import _hetero, inside_rows, ref_residual

    z = np.asarray(inside_rows(spec)[0], dtype=np.float64)
    before = {k: np.asarray(v).copy() for k, v in params.eq_params.items()}
    if spec["kind"] == "ode":
        r = loss.dynamic_loss.evaluate(jnp.asarray(z[0]), loss.u, params)
    elif spec["kind"] == "statio":
        r = loss.dynamic_loss.evaluate(jnp.asarray(z), loss.u, params)
    else:
        r = loss.dynamic_loss.evaluate(jnp.asarray(z[0:1]), jnp.asarray(z[1:]), loss.u, params)
    for k, v in params.eq_params.items():
        if not np.array_equal(np.asarray(v), before[k]):
            return fail("dynamic-loss-evaluate-modified-callers-eq_params", {"key": k, "before": before[k].tolist(),
                                                                            "after": np.asarray(v).tolist()}, labels=labels)
    eqp = {k: np.asarray(v, dtype=np.float64) for k, v in spec["eq_params"].items()}
    heqp = _hetero(spec, eqp, z)
    wantr, _ = ref_residual(spec["eq"]["coef"], tuple(sorted(spec["eq_params"])), spec["net"], z, heqp, heqp)
    if not np.allclose(np.asarray(r, dtype=np.float64).reshape(-1), wantr, rtol=1e-9, atol=1e-9):
        return fail("dynamic-loss-pointwise-value-hetero", {"got": np.asarray(r).tolist(), "want": wantr.tolist()}, labels=labels)
    het = spec.get("hetero") or {}
    declared = [k for k, v in het.items() if v is not None]
    if any(v is not None and len(v) >= 4 for v in het.values()):
        labels.append("cross-read")
    return ok(nontrivial=len(declared) >= 1 and len(set(r[0] for r in __import__("vpkit.problems", fromlist=["x"]).inside_rows(spec))) >= 2,
              labels=labels + (["declared"] if declared else ["none-declared"]))


def strat_hetero():
    from hypothesis import strategies as st

    @st.composite
    def s(draw):
        spec = draw(single_spec(want=("eq",), maybe=(), param_batch="no", hetero="always", nmax=4, nmin=2))
        return {"spec": spec}

    return s()


def run_system(case):
    from checks.c13_system_losses import run_case as run_sys

    v = run_sys(case)
    if not v.ok and not v.bucket.startswith("exc:") and "param" not in v.bucket and "value" not in v.bucket:
        return v
    return v


def strat_system():
    from checks.c13_system_losses import strat as sys_strat

    return sys_strat(force_pb=True)


def subchecks():
    return [
        SubCheck(name="system_losses_param_batch", mode="given", strategy=strat_system, run_case=run_system,
                 counts={"quick": 64, "thorough": 1500}, shards={"quick": 4, "thorough": 16}, clear_every=40,
                 doc="SystemLossODE / SystemLossPDE with a per-sample parameter batch vs per-sample reference; caller's "
                     "params_dict unchanged"),
        SubCheck(name="single_losses_param_batch", mode="given", strategy=strat, run_case=run_case,
                 counts={"quick": 160, "thorough": 4000}, shards={"quick": 8, "thorough": 16}, clear_every=50,
                 doc="every term of ODE/stationary/non-stationary losses with a per-sample parameter batch (+ optional "
                     "heterogeneity) vs per-sample numpy loop; gradient w.r.t. an unbatched parameter vs finite differences"),
        SubCheck(name="large_param_batches", mode="given", strategy=strat_big, run_case=run_case,
                 counts={"quick": 24, "thorough": 400}, shards={"quick": 8, "thorough": 16}, clear_every=6,
                 doc="the same oracle with per-sample parameter batches of 33..2050 rows"),
        SubCheck(name="heterogeneity_only", mode="given", strategy=strat_hetero, run_case=run_hetero,
                 counts={"quick": 60, "thorough": 1500}, shards={"quick": 3, "thorough": 16}, clear_every=50,
                 doc="heterogeneous parameters without a batch: replaced inside the equation only"),
    ]
