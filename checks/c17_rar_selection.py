"""C17 - refinement adds the highest-residual candidates and keeps active points."""
from __future__ import annotations

import numpy as np

from vpkit import SubCheck, fail, ok
from vpkit.rar import drive, rar_cfg_strategy, residual_sq

PROPERTY = "C17"
LEVEL = "exploration"
RULE = (
    "cases = the RAR configurations of C16 incl. ODE / stationary system losses (analytic residual landscapes with closed-form values, candidate / selected "
    "sizes, equal and unequal time / space initial counts, sequences of refinement steps interleaved with batch draws "
    "and reshuffles). Per step, from the guarded hook (candidates, reported squared residuals, chosen indices) and "
    "store snapshots taken by the harness: (1) all candidates lie in the domain; (2) squared residuals recomputed by "
    "the harness from closed forms equal the reported ones; (3) chosen == arg-top-k of the recomputed values (product "
    "domains: the time resp. space components of the top max(sel_t, sel_x) space-time pairs); (4) the points written "
    "are candidates[chosen]; (5) every slot with p != 0 before the step holds the same point afterwards and only "
    "p == 0 slots change; across get_batch calls the multiset of active points is preserved. Non-trivial = at least "
    "2 steps, selected < candidates, recomputed residuals pairwise distinct (>1e-9 relative) and at least one reshuffle "
    "between steps."
)
ASSUMPTIONS = ["what the hook reports is not trusted: residuals are recomputed, written points are read from the store",
               "ties between candidate residuals make the top-k ambiguous: such steps are counted as trivial"]


def _in(a, lo, hi):
    return bool(np.all(a >= lo) and np.all(a <= hi))


def make_on_iter(cfg, state):
    kind = cfg["kind"]

    def on_iter(rec):
        pre, post, spec = rec["pre"], rec["post"], rec["spec"]
        bb = rec["before_batch"]
        # across get_batch: the multiset of active points is preserved
        for name, (store, p) in bb.axes().items():
            K = int(np.count_nonzero(p))
            s2, p2 = pre.axes()[name]
            a = sorted(map(tuple, store[:K].tolist()))
            b = sorted(map(tuple, s2[:K].tolist()))
            if a != b:
                return ("active-points-changed-by-get_batch", {"axis": name, "iteration": rec["i"]})
            if not np.array_equal(store, s2):
                state["reshuffles"] += 1
        stepped = post.J != pre.J
        if not stepped:
            for name, (store, p) in pre.axes().items():
                s2, p2 = post.axes()[name]
                if not (np.array_equal(store, s2) and np.array_equal(p, p2)):
                    return ("store-changed-without-a-step", {"axis": name, "iteration": rec["i"]})
            if rec["sink"]:
                return ("hook-reported-a-step-that-did-not-happen", {"iteration": rec["i"]})
            return None
        state["steps"] += 1
        if len(rec["sink"]) != 1:
            return ("hook-entries", {"n": len(rec["sink"])})
        tag, kw = rec["sink"][0]
        kw = {k: np.asarray(v) for k, v in kw.items()}
        # (5) active slots untouched, only inactive slots overwritten
        for name, (store, p) in pre.axes().items():
            K = int(np.count_nonzero(p))
            s2, p2 = post.axes()[name]
            if not np.array_equal(store[:K], s2[:K]):
                chg = [int(j) for j in range(K) if not np.array_equal(store[j], s2[j])]
                return ("active-slot-overwritten", {"axis": name, "slots": chg, "active_before": K, "iteration": rec["i"],
                                                    "nt_start": cfg.get("nt_start"), "n_start": cfg.get("n_start")})
            if np.count_nonzero(p2[:K]) != K:
                return ("active-point-deactivated", {"axis": name})
        sel_t, sel_x = cfg.get("sel_t"), cfg.get("sel_x")
        if kind in ("ode", "statio"):
            name = "times" if kind == "ode" else "omega"
            cand = kw["candidates"].astype(np.float64)
            cand2 = cand.reshape(len(cand), -1)
            lo, hi = ([cfg["tmin"]], [cfg["tmax"]]) if kind == "ode" else (cfg["min"], cfg["max"])
            if not _in(cand2, np.asarray(lo), np.asarray(hi)):
                return ("candidate-outside-domain", {"axis": name})
            mine = np.array([residual_sq(spec, z) for z in cand2])
            rep = kw["sq_residuals"].astype(np.float64).ravel()
            if not np.allclose(rep, mine, rtol=1e-8, atol=1e-10):
                return ("reported-residuals-differ-from-recomputed", {"reported": rep[:4].tolist(), "recomputed": mine[:4].tolist()})
            sel = sel_t if kind == "ode" else sel_x
            order = np.argsort(mine)
            srt = mine[order]
            tied = bool(np.any(np.diff(srt) <= 1e-9 * (1 + srt[-1])))
            top = set(order[-sel:].tolist())
            chosen = kw["chosen"].astype(int).ravel().tolist()
            if not tied and set(chosen) != top:
                return ("chosen-are-not-the-highest-residual-candidates", {"chosen": chosen, "top": sorted(top),
                                                                           "sq_residuals": mine.tolist()})
            store, p = pre.axes()[name]
            K = int(np.count_nonzero(p))
            s2, _ = post.axes()[name]
            written = s2[K:K + sel]
            if not np.array_equal(written, cand2[chosen]):
                return ("written-points-are-not-the-chosen-candidates", {"axis": name, "written": written.tolist(),
                                                                         "chosen_points": cand2[chosen].tolist(), "offset": K})
            if not np.array_equal(store[K + sel:], s2[K + sel:]):
                return ("slots-beyond-the-new-set-changed", {"axis": name})
            state["tied"] = state["tied"] or tied
            state["strict"] = state["strict"] and sel < len(cand)
        else:
            ct = kw["candidates_times"].astype(np.float64).ravel()
            cx = kw["candidates_omega"].astype(np.float64)
            if not _in(ct, cfg["tmin"], cfg["tmax"]) or not _in(cx, np.asarray(cfg["min"]), np.asarray(cfg["max"])):
                return ("candidate-outside-domain", {"axis": "times/omega"})
            mine = np.array([[residual_sq(spec, [t] + list(x)) for x in cx] for t in ct])
            rep = kw["sq_residuals"].astype(np.float64)
            if rep.shape != mine.shape or not np.allclose(rep, mine, rtol=1e-8, atol=1e-10):
                return ("reported-residuals-differ-from-recomputed", {"shape": list(rep.shape)})
            flat = mine.ravel()
            order = np.argsort(-flat, kind="stable")
            srt = flat[order]
            m = max(sel_t, sel_x)
            tied = bool(np.any(np.abs(np.diff(srt[: m + 1])) <= 1e-9 * (1 + srt[0])))
            pairs = [np.unravel_index(int(j), mine.shape) for j in order[:m]]
            want_t = [int(a) for a, _ in pairs][:sel_t]
            want_x = [int(b) for _, b in pairs][:sel_x]
            got_t = kw["chosen_times"].astype(int).ravel().tolist()
            got_x = kw["chosen_omega"].astype(int).ravel().tolist()
            if not tied and (got_t != want_t or got_x != want_x):
                return ("chosen-are-not-the-components-of-the-top-pairs", {"chosen_times": got_t, "want_times": want_t,
                                                                          "chosen_omega": got_x, "want_omega": want_x})
            for name, cand2, chosen, sel in (("times", ct.reshape(-1, 1), got_t, sel_t), ("omega", cx, got_x, sel_x)):
                store, p = pre.axes()[name]
                K = int(np.count_nonzero(p))
                s2, _ = post.axes()[name]
                written = s2[K:K + sel]
                if not np.array_equal(written, cand2[chosen]):
                    return ("written-points-are-not-the-chosen-candidates", {"axis": name, "written": written.tolist(),
                                                                             "chosen_points": cand2[chosen].tolist(), "offset": K})
                if not np.array_equal(store[K + sel:], s2[K + sel:]):
                    return ("slots-beyond-the-new-set-changed", {"axis": name})
            state["tied"] = state["tied"] or tied
            state["strict"] = state["strict"] and (sel_t < len(ct) or sel_x < len(cx))
        return None

    return on_iter


def run_case(case):
    cfg = case["cfg"]
    labels = [cfg["kind"], f"d{cfg['dim']}"] + (["system-loss"] if cfg.get("system") else [])
    state = {"steps": 0, "reshuffles": 0, "tied": False, "strict": True}
    g, records, r = drive(cfg, on_iter=make_on_iter(cfg, state))
    if r is not None:
        return fail(r[0], dict(r[1], kind=cfg["kind"], dim=cfg["dim"]), labels=labels)
    if cfg["kind"] == "nonstatio" and cfg["nt_start"] != cfg["n_start"]:
        labels.append("nt_start!=n_start")
    nt = state["steps"] >= 2 and not state["tied"] and state["strict"] and state["reshuffles"] >= 1
    return ok(nontrivial=nt, labels=labels, detail=state)


def strat():
    return rar_cfg_strategy().map(lambda c: {"cfg": c})


def subchecks():
    return [
        SubCheck(name="selection_and_preservation", mode="given", strategy=strat, run_case=run_case,
                 counts={"quick": 96, "thorough": 4800}, shards={"quick": 8, "thorough": 16}, clear_every=5,
                 min_nontrivial_frac=0.25, doc="per-step top-k selection, written points, active slots preserved"),
    ]
