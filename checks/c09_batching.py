"""C09 - Mini-batching permutes the point set and serves each point once per epoch.

Oracle (history invariant over the sequence of get_batch calls, per store):
  * multiset(store) never changes (exact);
  * every served row is a row of the store (exact) -> slot identity by value;
  * epochs are delimited by reshuffles; inside an epoch, if b | n no point is served
    twice, and when the epoch ends (next reshuffle) every point has been served;
  * the first call after coverage of the epoch is complete MUST reshuffle.
A reshuffle of a store is recognised from outside: the store's row order changed, or the
generator's PRNG key changed while that store's read index did not advance.
"""
from __future__ import annotations

import math

import numpy as np

from vpkit import SubCheck, fail, ok

PROPERTY = "C09"
LEVEL = "exploration"
RULE = (
    "cases = (store kind, n points, batch size b<=n, PRNG key, number of calls); small scopes "
    "n<=6 (quick) / n<=10 (thorough) enumerated exhaustively for the 7 store kinds (ODE times, "
    "stationary interior 1-D/2-D, 2-D border facets, space-time times, observation rows, parameter "
    "samples), history length 3*ceil(n/b)+2 calls; plus Hypothesis rule-based state machines "
    "interleaving inside_batch/border_batch/temporal_batch/get_batch on larger stores. "
    "Non-trivial = b<n and the history contains >=2 reshuffles (so a full epoch lies between two "
    "reshuffles); distinct = distinct canonical JSON of the case."
)
ASSUMPTIONS = [
    "stores are built from pairwise distinct points (asserted per case) so a served value identifies its slot",
    "a reshuffle is recognised by a change of store order, or a change of the PRNG key with a non-advancing read index",
    "the 1-D border (fixed pair returned whole on every call) is checked for set-invariance only",
    "RAR-enabled generators are left to C16/C17",
]


# ----------------------------------------------------------------------------- model
class EpochModel:
    """Dict-based model of one store."""

    def __init__(self, store_rows, b):
        self.rows = [tuple(np.asarray(r, dtype=np.float64).ravel().tolist()) for r in store_rows]
        self.n = len(self.rows)
        self.b = b
        self.ids = {r: i for i, r in enumerate(self.rows)}
        self.distinct = len(self.ids) == self.n
        self.sorted_rows = sorted(self.rows)
        self.served = [0] * self.n  # count in current epoch
        self.reshuffles = 0
        self.complete_pending = False  # coverage complete -> next call must reshuffle
        self.calls = 0
        self.calls_in_epoch = 0

    def observe(self, store_rows, served_rows, reshuffled):
        """Returns None or (bucket, detail)."""
        self.calls += 1
        rows = [tuple(np.asarray(r, dtype=np.float64).ravel().tolist()) for r in store_rows]
        if sorted(rows) != self.sorted_rows:
            return "store-multiset-changed", {"call": self.calls}
        sv = [tuple(np.asarray(r, dtype=np.float64).ravel().tolist()) for r in served_rows]
        if len(sv) != self.b:
            return "batch-size", {"call": self.calls, "got": len(sv), "want": self.b}
        ids = []
        for r in sv:
            if r not in self.ids:
                return "served-row-not-in-store", {"call": self.calls, "row": list(r)}
            ids.append(self.ids[r])
        if self.complete_pending and not reshuffled:
            return "no-reshuffle-after-coverage", {
                "call": self.calls, "n": self.n, "b": self.b, "served_ids": ids,
                "explain": "all points of the epoch had been served; this call had to reshuffle"}
        if reshuffled:
            if self.reshuffles > 0 or self.calls > 1:
                # an epoch just ended: every point must have been served in it
                missing = [i for i, c in enumerate(self.served) if c == 0]
                if missing:
                    return "reshuffle-before-coverage", {"call": self.calls, "n": self.n, "b": self.b,
                                                         "unserved_ids": missing}
            self.reshuffles += 1
            self.served = [0] * self.n
            self.calls_in_epoch = 0
        self.calls_in_epoch += 1
        for i in ids:
            self.served[i] += 1
        if len(set(ids)) != len(ids):
            return "duplicate-inside-batch", {"call": self.calls, "ids": ids}
        if self.n % self.b == 0:
            dup = [i for i, c in enumerate(self.served) if c > 1]
            if dup:
                return "point-served-twice-in-epoch", {
                    "call": self.calls, "n": self.n, "b": self.b, "ids_served_twice": dup,
                    "call_in_epoch": self.calls_in_epoch}
        self.complete_pending = all(c > 0 for c in self.served)
        return None


# ----------------------------------------------------------------------------- builders
def _key(seed):
    import jax

    return jax.random.PRNGKey(int(seed))


BOX1 = ((-1.5,), (2.25,))
BOX2 = ((-1.5, 0.5), (2.25, 3.0))


def build(kind, n, b, seed):
    """Returns (generator, list of store accessors) ; accessor = dict(name, store(g), idx(g), key(g), n, b)."""
    import jax.numpy as jnp
    import jinns

    k = _key(seed)
    if kind == "ode_times":
        g = jinns.data.DataGeneratorODE(k, n, -0.5, 1.75, b, method="uniform")
        acc = [dict(name="times", store=lambda g: g.times, idx=lambda g: g.curr_time_idx, key=lambda g: g.key,
                    n=n, b=b)]
    elif kind in ("statio1_inside", "statio2_inside"):
        dim = 1 if kind.startswith("statio1") else 2
        box = BOX1 if dim == 1 else BOX2
        g = jinns.data.CubicMeshPDEStatio(key=k, n=n, nb=None, omega_batch_size=b, omega_border_batch_size=None,
                                          dim=dim, min_pts=box[0], max_pts=box[1], method="uniform")
        acc = [dict(name="omega", store=lambda g: g.omega, idx=lambda g: g.curr_omega_idx, key=lambda g: g.key,
                    n=n, b=b)]
    elif kind == "statio2_border":
        # n = points per facet, b = border batch size ; interior kept tiny
        g = jinns.data.CubicMeshPDEStatio(key=k, n=3, nb=4 * n, omega_batch_size=3, omega_border_batch_size=b,
                                          dim=2, min_pts=BOX2[0], max_pts=BOX2[1], method="uniform")
        acc = [dict(name="omega_border", store=lambda g: g.omega_border, idx=lambda g: g.curr_omega_border_idx,
                    key=lambda g: g.key, n=n, b=b)]
    elif kind == "nonstatio_times":
        g = jinns.data.CubicMeshPDENonStatio(key=k, n=3, nb=None, nt=n, omega_batch_size=3,
                                             omega_border_batch_size=None, temporal_batch_size=b, dim=1,
                                             min_pts=BOX1[0], max_pts=BOX1[1], tmin=0.25, tmax=1.5,
                                             method="uniform")
        acc = [dict(name="times", store=lambda g: g.times, idx=lambda g: g.curr_time_idx, key=lambda g: g.key,
                    n=n, b=b)]
    elif kind == "obs_rows":
        pin = jnp.arange(n, dtype=float)[:, None] * 0.5 - 1.0
        val = jnp.stack([jnp.arange(n, dtype=float) * 3.0 + 0.25, -jnp.arange(n, dtype=float)], axis=1)
        # observed equation parameters belong to the row too (given as (n,) : the loader adds the axis)
        g = jinns.data.DataGeneratorObservations(k, b, pin, val, {"nu": jnp.arange(n, dtype=float) * 7.0 + 100.0})
        acc = []  # handled specially (index store)
    elif kind == "param_samples":
        g = jinns.data.DataGeneratorParameter(k, n, b, param_ranges={"nu": (0.5, 2.0)},
                                              user_data={"theta": jnp.arange(n, dtype=float) * 0.5 + 10.0})
        acc = [
            dict(name="nu", store=lambda g: g.param_n_samples["nu"], idx=lambda g: g.curr_param_idx["nu"],
                 key=lambda g: g.keys["nu"], n=n, b=b),
            dict(name="theta", store=lambda g: g.param_n_samples["theta"], idx=lambda g: g.curr_param_idx["theta"],
                 key=lambda g: g.keys["theta"], n=n, b=b),
        ]
    else:
        raise ValueError(kind)
    return g, acc


def _np(a):
    return np.asarray(a)


def _keydata(k):
    import jax

    try:
        return np.asarray(jax.random.key_data(k)).tolist()
    except Exception:
        return np.asarray(k).tolist()


def served_from_batch(kind, name, batch):
    if kind == "ode_times":
        return _np(batch.temporal_batch).reshape(-1, 1)
    if kind in ("statio1_inside", "statio2_inside"):
        return _np(batch.inside_batch)
    if kind == "statio2_border":
        bb = _np(batch.border_batch)
        return bb.reshape(bb.shape[0], -1)
    if kind == "nonstatio_times":
        tx = _np(batch.times_x_inside_batch)
        # cartesian product, time-major: t repeated over the 3 spatial points
        return tx[:: 3, 0:1]
    if kind == "param_samples":
        return _np(batch[name])
    raise ValueError(kind)


def run_history(case):
    kind, n, b, seed, calls = case["kind"], case["n"], case["b"], case["key"], case["calls"]
    g, accs = build(kind, n, b, seed)
    labels = [kind, "b|n" if n % b == 0 else "b∤n"]
    if kind == "obs_rows":
        return _run_obs(case, g, labels)
    models = []
    for a in accs:
        st = _np(a["store"](g))
        m = EpochModel(st.reshape(st.shape[0], -1), b)
        if not m.distinct:
            return ok(nontrivial=False, labels=labels + ["store-not-distinct"])
        models.append(m)
    prev = [(_np(a["store"](g)).copy(), _keydata(a["key"](g)), int(a["idx"](g))) for a in accs]
    for _ in range(calls):
        g, batch = g.get_batch()
        for j, (a, m) in enumerate(zip(accs, models)):
            st = _np(a["store"](g))
            kd = _keydata(a["key"](g))
            idx = int(a["idx"](g))
            reshuffled = (not np.array_equal(st, prev[j][0])) or (kd != prev[j][1] and idx <= prev[j][2])
            if kind in ("ode_times", "statio1_inside", "statio2_inside"):
                # single-store generators: any key change is a reshuffle of that store
                reshuffled = reshuffled or kd != prev[j][1]
            prev[j] = (st.copy(), kd, idx)
            served = served_from_batch(kind, a["name"], batch)
            r = m.observe(st.reshape(st.shape[0], -1), served.reshape(served.shape[0], -1), reshuffled)
            if r is not None:
                return fail(f"{r[0]}", dict(r[1], store=a["name"], kind=kind), labels=labels)
    nt = b < n and all(m.reshuffles >= 2 for m in models)
    return ok(nontrivial=nt, labels=labels, detail={"reshuffles": [m.reshuffles for m in models]})


def _run_obs(case, g, labels):
    """Observation loader: the store is the user's table, permuted through an index vector."""
    n, b, calls = case["n"], case["b"], case["calls"]
    pin0, val0 = _np(g.observed_pinn_in).copy(), _np(g.observed_values).copy()
    nu0 = _np(g.observed_eq_params["nu"]).reshape(n, 1).copy()
    rows = np.concatenate([pin0, val0, nu0], axis=1)
    m = EpochModel(rows, b)
    prev_idx_vec, prev_key, prev_cur = _np(g.indices).copy(), _keydata(g.key), int(g.curr_idx)
    for _ in range(calls):
        g, batch = g.get_batch()
        if not (np.array_equal(_np(g.observed_pinn_in), pin0) and np.array_equal(_np(g.observed_values), val0)):
            return fail("obs-table-changed", {"call": m.calls + 1}, labels=labels)
        iv, kd, cur = _np(g.indices), _keydata(g.key), int(g.curr_idx)
        if sorted(iv.tolist()) != list(range(n)):
            return fail("index-vector-not-a-permutation", {"indices": iv.tolist()}, labels=labels)
        reshuffled = (not np.array_equal(iv, prev_idx_vec)) or kd != prev_key
        prev_idx_vec, prev_key, prev_cur = iv.copy(), kd, cur
        served = np.concatenate([_np(batch["pinn_in"]), _np(batch["val"]), _np(batch["eq_params"]["nu"]).reshape(-1, 1)], axis=1)
        r = m.observe(rows, served, reshuffled)
        if r is not None:
            return fail(r[0], dict(r[1], store="obs", kind="obs_rows"), labels=labels)
    return ok(nontrivial=b < n and m.reshuffles >= 2, labels=labels, detail={"reshuffles": [m.reshuffles]})


KINDS = ["ode_times", "statio1_inside", "statio2_inside", "statio2_border", "nonstatio_times", "obs_rows",
         "param_samples"]


def enum_small(tier):
    nmax = 6 if tier == "quick" else 10
    keys = [0, 7] if tier == "quick" else [0, 7, 123]
    for kind in KINDS:
        for n in range(1, nmax + 1):
            for b in range(1, n + 1):
                for key in keys:
                    yield {"kind": kind, "n": n, "b": b, "key": key, "calls": 3 * math.ceil(n / b) + 2}


def strat_large():
    from hypothesis import strategies as st

    @st.composite
    def s(draw):
        kind = draw(st.sampled_from(KINDS))
        n = draw(st.integers(2, 60))
        b = draw(st.one_of(st.integers(1, n), st.sampled_from([d for d in range(1, n + 1) if n % d == 0])))
        key = draw(st.integers(0, 2**31 - 1))
        epochs = draw(st.integers(2, 3))
        calls = min(epochs * math.ceil(n / b) + draw(st.integers(1, 3)), 70)
        return {"kind": kind, "n": n, "b": b, "key": key, "calls": calls}

    return s()


# ----------------------------------------------------------------------------- state machine
def machine_factory(rec, record):
    """Space-time generator with three stores driven by interleaved public operations."""
    from hypothesis import strategies as st
    from hypothesis.stateful import RuleBasedStateMachine, initialize, rule

    from vpkit.worker import _CaseFailure

    class NonStatioMachine(RuleBasedStateMachine):
        def __init__(self):
            super().__init__()
            self.cfg = None
            self.ops = []
            self.done = False

        @initialize(n=st.integers(1, 12), nt=st.integers(1, 12), fn=st.integers(1, 6), data=st.data(),
                    key=st.integers(0, 2**31 - 1), dim=st.sampled_from([1, 2]))
        def init(self, n, nt, fn, data, key, dim):
            b = data.draw(st.integers(1, n))
            bt = data.draw(st.integers(1, nt))
            bb = data.draw(st.integers(1, fn))
            self.cfg = dict(n=n, nt=nt, fn=fn, b=b, bt=bt, bb=bb, key=key, dim=dim)
            self.drv = Driver(self.cfg)
            self._check(self.drv.error)

        def _check(self, res):
            if res is not None:
                self.done = True
                v = fail(res[0], res[1], labels=self.drv.labels())
                rec.account({"cfg": self.cfg, "ops": self.ops}, v)
                if not record({"cfg": self.cfg, "ops": self.ops}, v):
                    raise _CaseFailure(v.bucket)

        def _op(self, name):
            if self.done:
                return
            self.ops.append(name)
            res, exc = rec.guarded(self.drv.step, name)
            if exc is not None:
                self.done = True
                rec.account({"cfg": self.cfg, "ops": self.ops}, exc)
                if not record({"cfg": self.cfg, "ops": self.ops}, exc):
                    raise _CaseFailure(exc.bucket)
                return
            self._check(res)

        @rule()
        def inside(self):
            self._op("inside")

        @rule()
        def border(self):
            self._op("border")

        @rule()
        def temporal(self):
            self._op("temporal")

        @rule()
        def get_batch(self):
            self._op("get_batch")

        def teardown(self):
            if self.cfg is not None and not self.done:
                rec.account({"cfg": self.cfg, "ops": self.ops}, self.drv.verdict())

    return NonStatioMachine


class Driver:
    """Applies ops to a real CubicMeshPDENonStatio and to three EpochModels."""

    def __init__(self, cfg):
        import jinns

        self.cfg = cfg
        dim = cfg["dim"]
        box = BOX1 if dim == 1 else BOX2
        self.error = None
        self.g = jinns.data.CubicMeshPDENonStatio(
            key=_key(cfg["key"]), n=cfg["n"], nb=4 * cfg["fn"], nt=cfg["nt"], omega_batch_size=cfg["b"],
            omega_border_batch_size=cfg["bb"], temporal_batch_size=cfg["bt"], dim=dim, min_pts=box[0],
            max_pts=box[1], tmin=0.25, tmax=1.5, method="uniform")
        g = self.g
        self.models = {
            "omega": EpochModel(_np(g.omega), cfg["b"]),
            "times": EpochModel(_np(g.times).reshape(-1, 1), cfg["bt"]),
        }
        if dim == 2:
            ob = _np(g.omega_border)
            self.models["border"] = EpochModel(ob.reshape(ob.shape[0], -1), cfg["bb"])
        self.border_pair = _np(g.omega_border).copy() if dim == 1 else None
        self.all_distinct = all(m.distinct for m in self.models.values())
        self.prev = self._snap()

    def _snap(self):
        g = self.g
        s = {"omega": (_np(g.omega).copy(), int(g.curr_omega_idx)),
             "times": (_np(g.times).copy(), int(g.curr_time_idx)),
             "key": _keydata(g.key)}
        if self.cfg["dim"] == 2:
            s["border"] = (_np(g.omega_border).copy(), int(g.curr_omega_border_idx))
        return s

    def labels(self):
        return [f"dim{self.cfg['dim']}"]

    def step(self, op):
        if not self.all_distinct:
            return None
        g = self.g
        served = {}
        if op == "inside":
            g, x = g.inside_batch()
            served["omega"] = _np(x)
        elif op == "border":
            g, dx = g.border_batch()
            if self.cfg["dim"] == 2:
                dx = _np(dx)
                served["border"] = dx.reshape(dx.shape[0], -1)
            else:
                if not np.array_equal(_np(dx).ravel(), self.border_pair.ravel()):
                    return "1d-border-not-the-end-points", {"got": _np(dx).tolist()}
        elif op == "temporal":
            g, t = g.temporal_batch()
            served["times"] = _np(t).reshape(-1, 1)
        elif op == "get_batch":
            g, batch = g.get_batch()
            tx = _np(batch.times_x_inside_batch)
            b, bt = self.cfg["b"], self.cfg["bt"]
            served["times"] = tx[::b, 0:1]
            served["omega"] = tx[:b, 1:]
            if self.cfg["dim"] == 2:
                tb = _np(batch.times_x_border_batch)  # (bt*bb, 3, 4)
                bb = self.cfg["bb"]
                served["border"] = tb[:bb, 1:, :].reshape(bb, -1)
        self.g = g
        new = self._snap()
        keychg = new["key"] != self.prev["key"]
        for name, rows in served.items():
            st, idx = new[name]
            pst, pidx = self.prev[name]
            reshuffled = (not np.array_equal(st, pst)) or (keychg and idx <= pidx)
            r = self.models[name].observe(st.reshape(st.shape[0], -1), rows, reshuffled)
            if r is not None:
                return r[0], dict(r[1], store=name)
        # untouched stores must be untouched
        for name in self.models:
            if name not in served and not np.array_equal(new[name][0], self.prev[name][0]):
                return "untouched-store-changed", {"store": name, "op": op}
        self.prev = new
        return None

    def verdict(self):
        ms = self.models.values()
        nt = self.all_distinct and any(m.reshuffles >= 2 and m.b < m.n for m in ms)
        labs = self.labels() + [f"{k}:{'b|n' if m.n % m.b == 0 else 'b∤n'}" for k, m in self.models.items()]
        return ok(nontrivial=nt, labels=labs, detail={k: m.reshuffles for k, m in self.models.items()})


def run_machine_case(case):
    drv = Driver(case["cfg"])
    for op in case["ops"]:
        r = drv.step(op)
        if r is not None:
            return fail(r[0], r[1], labels=drv.labels())
    return drv.verdict()


def subchecks():
    return [
        SubCheck(name="epochs_small_exhaustive", mode="enum", enumerate=enum_small, run_case=run_history,
                 shards={"quick": 7, "thorough": 16},
                 doc="every (kind, n<=6|8, b<=n, key) with 3*ceil(n/b)+2 get_batch calls"),
        SubCheck(name="epochs_large_random", mode="given", strategy=strat_large, run_case=run_history,
                 counts={"quick": 60, "thorough": 8000}, shards={"quick": 2, "thorough": 16},
                 doc="random n<=60 (divisor batch sizes over-sampled), 2-3 epochs"),
        SubCheck(name="nonstatio_interleaved_machine", mode="machine", machine=machine_factory,
                 run_case=run_machine_case, counts={"quick": 40, "thorough": 6400},
                 shards={"quick": 2, "thorough": 16}, steps={"quick": 40, "thorough": 60},
                 doc="rule-based machine: inside_batch/border_batch/temporal_batch/get_batch interleaved on one "
                     "space-time generator (3 stores sharing one key)"),
    ]
