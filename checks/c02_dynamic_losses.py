"""C02 - built-in dynamic losses equal the residual of their documented equation.

(A) closed-form residual on random analytic candidate solutions (numpy float64 derivatives);
(B) exact solutions of each equation give a vanishing residual.
"""
from __future__ import annotations

import functools
import math

import numpy as np

from vpkit import SubCheck, fail, ok
from vpkit.fields import Field, field_pinn, field_specs, q16

PROPERTY = "C02"
LEVEL = "exploration"
RULE = (
    "cases = (equation in {Burgers, Fisher-KPP d=1..3, OU Fokker-Planck 2D, generalized Lotka-Volterra (log form), "
    "mass conservation 2D, Navier-Stokes 2D}, analytic candidate solution, point, equation parameters, Tmax, key layout "
    "of the multi-network equations). Oracle A: closed-form residual from numpy derivatives of the field; oracle B: "
    "exact solutions (Burgers x/(Tmax t+c) and tanh travelling wave, homogeneous logistic Fisher-KPP, OU transition "
    "density, Poiseuille flow, curl of a stream function, single-species logistic GLV) must give |residual|<=1e-8*scale. "
    "Non-trivial (A) = every additive term of the residual has magnitude >1e-3, |Tmax-1|>0.1 and the parameters are "
    "pairwise distinct, so a swapped/missing/mis-signed term changes the value beyond tolerance; (B) = the individual "
    "terms of the residual are non-zero (they cancel) . distinct = distinct canonical JSON."
)
ASSUMPTIONS = [
    "GLV sign convention: d/dt log u_i + Tmax(-r_i - sum_k a_i[k] u_k + c_i sum_k u_k), a_i[0] <-> main key, "
    "a_i[k+1] <-> keys_other[k] (the docstring formula is internally inconsistent; roles/indices/Tmax are pinned, sign "
    "taken from the notebook's parameter values)",
    "tolerance 1e-9*(1+sum|terms|) in x64",
]
TOL = 1e-9


def _L():
    import jinns

    return jinns.loss


def _P():
    import jinns

    return jinns.parameters


def _check(name, got, want, terms, tmax, params_distinct, labels, extra_nt=True):
    got = np.asarray(got, dtype=np.float64)
    want = np.asarray(want, dtype=np.float64)
    scale = float(np.sum(np.abs(terms)))
    if got.shape != want.shape:
        return fail(f"{name}-shape", {"got": list(got.shape), "want": list(want.shape)}, labels=labels)
    err = float(np.max(np.abs(got - want)))
    if not err <= TOL * (1 + scale):
        return fail(f"{name}-residual", {"got": got.tolist(), "want": want.tolist(), "err": err,
                                         "terms": [float(t) for t in np.ravel(terms)]}, labels=labels)
    nt = bool(np.min(np.abs(terms)) > 1e-3 and abs(tmax - 1) > 0.1 and params_distinct and extra_nt)
    return ok(nontrivial=nt, labels=labels, detail={"want": want.tolist(), "err": err})


def _distinct(vals, eps=1e-3):
    vals = [float(v) for v in vals]
    return all(abs(a - b) > eps for i, a in enumerate(vals) for b in vals[i + 1:])


# ----------------------------------------------------------------- (A) closed-form residuals
def run_burgers(case):
    import jax.numpy as jnp

    F = Field(case["field"])
    t, x, nu, T = case["t"], case["x"], case["nu"], case["Tmax"]
    V, G, H = F.all([t, x])
    terms = [G[0, 0], T * V[0] * G[0, 1], -T * nu * H[0, 1, 1]]
    u, p = field_pinn(case["field"], "nonstatio_PDE")
    eq = _L().BurgerEquation(Tmax=T)
    prm = _P().Params(nn_params=p, eq_params={"nu": jnp.asarray(nu), "other": jnp.asarray(3.0)})
    got = eq.evaluate(jnp.asarray([t]), jnp.asarray([x]), u, prm)
    return _check("burgers", got, [sum(terms)], terms, T, True, ["burgers"])


def run_fisher(case):
    import jax.numpy as jnp

    F = Field(case["field"])
    d = F.din - 1
    t, x, T = case["t"], case["x"], case["Tmax"]
    D, r, g = case["D"], case["r"], case["g"]
    V, G, H = F.all([t] + list(x))
    lap = sum(H[0, 1 + i, 1 + i] for i in range(d))
    terms = [G[0, 0], -T * D * lap, -T * V[0] * r, T * g * V[0] ** 2]
    u, p = field_pinn(case["field"], "nonstatio_PDE")
    eq = _L().FisherKPP(Tmax=T)
    prm = _P().Params(nn_params=p, eq_params={"D": jnp.asarray(D), "r": jnp.asarray(r), "g": jnp.asarray(g)})
    got = eq.evaluate(jnp.asarray([t]), jnp.asarray(x), u, prm)
    return _check("fisher", got, [sum(terms)], terms, T, _distinct([D, r, g]), ["fisher", f"d{d}"])


def run_ou(case):
    import jax.numpy as jnp

    F = Field(case["field"])
    t, x, T = case["t"], case["x"], case["Tmax"]
    alpha, mu, sigma = case["alpha"], case["mu"], case["sigma"]
    al = alpha if isinstance(alpha, list) else [alpha, alpha]
    V, G, H = F.all([t] + list(x))
    # -u_t + T( -div(alpha(mu-x)u) + sum_i 0.5 sigma_i^2 d_ii u )
    terms = [-G[0, 0]]
    for i in range(2):
        terms.append(-T * al[i] * (mu[i] - x[i]) * G[0, 1 + i])
        terms.append(T * al[i] * V[0])
        terms.append(T * 0.5 * sigma[i] ** 2 * H[0, 1 + i, 1 + i])
    u, p = field_pinn(case["field"], "nonstatio_PDE")
    eq = _L().OU_FPENonStatioLoss2D(Tmax=T)
    prm = _P().Params(nn_params=p, eq_params={"alpha": jnp.asarray(alpha), "mu": jnp.asarray(mu),
                                              "sigma": jnp.asarray(sigma)})
    got = eq.evaluate(jnp.asarray([t]), jnp.asarray(x), u, prm)
    pd = _distinct(al + list(mu) + list(sigma)) if isinstance(alpha, list) else _distinct([alpha] + list(mu) + list(sigma))
    return _check("ou", got, [sum(terms)], terms, T, pd,
                  ["ou", "alpha-vector" if isinstance(alpha, list) else "alpha-scalar"])


def run_glv(case):
    import jax.numpy as jnp

    keys = case["keys"]  # main first
    T, t = case["Tmax"], case["t"]
    layout = case["layout"]
    fields = [Field(s) for s in case["fields"]]
    us, ps = zip(*[field_pinn(s, "ODE") for s in case["fields"]])
    vals = [f.all([t]) for f in fields]
    V = [v[0][0] for v in vals]
    dlog = vals[0][1][0, 0] / V[0]
    r, c, a = case["r"], case["c"], case["a"]
    terms = [dlog, -T * r] + [-T * a[k] * V[k] for k in range(len(keys))] + [T * c * V[k] for k in range(len(keys))]
    main_eq = {"growth_rate": jnp.asarray(r), "carrying_capacity": jnp.asarray(c), "interactions": jnp.asarray(a)}
    if layout == "per_key":
        # every unknown has its own dict ; others get decoy values that must not be used
        eqp = {k: {"growth_rate": jnp.asarray(r + 10.0 + i), "carrying_capacity": jnp.asarray(c - 7.0 - i),
                   "interactions": jnp.asarray([x + 5.0 + i for x in a])} for i, k in enumerate(keys)}
        eqp[keys[0]] = main_eq
    else:
        eqp = main_eq
    pd = _P().ParamsDict(nn_params=dict(zip(keys, ps)), eq_params=eqp)
    eq = _L().GeneralizedLotkaVolterra(key_main=keys[0], keys_other=keys[1:], Tmax=T)
    tt = jnp.asarray([t]) if case["t_shape"] == "vec" else jnp.asarray(t)
    got = eq.evaluate(tt, dict(zip(keys, us)), pd)
    want = np.array([sum(terms)]) if case["t_shape"] == "vec" else np.array([sum(terms)])
    got = np.asarray(got, dtype=np.float64).reshape(-1)
    return _check("glv", got, want, terms, T, _distinct([r, c] + list(a)) and _distinct(V),
                  ["glv", layout, f"K{len(keys) - 1}"])


def run_mass(case):
    import jax.numpy as jnp

    F = Field(case["field"])
    x = case["x"]
    V, G, H = F.all(x)
    terms = [G[0, 0], G[1, 1]]
    u, p = field_pinn(case["field"], "statio_PDE")
    key = case["key"]
    others = case["other_keys"]
    nn = {key: p}
    ud = {key: u}
    for ok_ in others:
        nn[ok_] = None
    eq = _L().MassConservation2DStatio(nn_key=key)
    pd = _P().ParamsDict(nn_params=nn, eq_params={"rho": jnp.asarray(1.0)})
    got = eq.evaluate(jnp.asarray(x), ud, pd)
    alt_ok = abs(G[0, 1] + G[1, 0] - sum(terms)) > 1e-3 and abs(G[0, 0] + G[0, 1] - sum(terms)) > 1e-3
    return _check("mass", got, [sum(terms)], terms, 2.0, True, ["mass"], extra_nt=alt_ok)


def run_ns(case):
    import jax.numpy as jnp

    FU, FP = Field(case["ufield"]), Field(case["pfield"])
    x, rho, nu = case["x"], case["rho"], case["nu"]
    V, G, H = FU.all(x)
    _, GP, _ = FP.all(x)
    want, allterms = [], []
    for i in range(2):
        terms = [V[0] * G[i, 0], V[1] * G[i, 1], GP[0, i] / rho, -nu * H[i, 0, 0], -nu * H[i, 1, 1]]
        want.append(sum(terms))
        allterms += terms
    u, pu = field_pinn(case["ufield"], "statio_PDE")
    pn, pp = field_pinn(case["pfield"], "statio_PDE")
    uk, pk = case["u_key"], case["p_key"]
    eq = _L().NavierStokes2DStatio(u_key=uk, p_key=pk)
    pd = _P().ParamsDict(nn_params={uk: pu, pk: pp}, eq_params={"rho": jnp.asarray(rho), "nu": jnp.asarray(nu)})
    got = eq.evaluate(jnp.asarray(x), {uk: u, pk: pn}, pd)
    return _check("ns", got, want, allterms, 2.0, _distinct([rho, nu, 1.0 / rho]), ["ns"])


# ----------------------------------------------------------------- (B) exact solutions
@functools.lru_cache(maxsize=None)
def _exact_classes():
    import equinox as eqx
    import jax
    import jax.numpy as jnp

    class BurgersRational(eqx.Module):  # u = x / (T t + c)
        T: jnp.ndarray
        c: jnp.ndarray

        def __call__(self, z):
            return z[1] / (self.T * z[0] + self.c)

    class BurgersWave(eqx.Module):  # u = a - b tanh(b (x - a T t) / (2 nu))
        a: jnp.ndarray
        b: jnp.ndarray
        T: jnp.ndarray
        nu: jnp.ndarray

        def __call__(self, z):
            return self.a - self.b * jnp.tanh(self.b * (z[1] - self.a * self.T * z[0]) / (2 * self.nu))

    class Logistic(eqx.Module):  # u = K / (1 + A exp(-rate t)) ; ignores space
        K: jnp.ndarray
        A: jnp.ndarray
        rate: jnp.ndarray

        def __call__(self, z):
            return self.K / (1 + self.A * jnp.exp(-self.rate * z[0])) + 0.0 * jnp.sum(z)

    class OUDensity(eqx.Module):
        T: jnp.ndarray
        alpha: jnp.ndarray  # (2,)
        mu: jnp.ndarray
        sigma: jnp.ndarray
        x0: jnp.ndarray
        t0: jnp.ndarray

        def __call__(self, z):
            s = self.T * (z[0] + self.t0)
            m = self.mu + (self.x0 - self.mu) * jnp.exp(-self.alpha * s)
            v = self.sigma**2 / (2 * self.alpha) * (1 - jnp.exp(-2 * self.alpha * s))
            return jnp.prod(jnp.exp(-((z[1:] - m) ** 2) / (2 * v)) / jnp.sqrt(2 * jnp.pi * v))

    class Poiseuille(eqx.Module):
        c: jnp.ndarray
        h: jnp.ndarray

        def __call__(self, z):
            return jnp.stack([self.c * z[1] * (self.h - z[1]), 0.0 * z[0]])

    class LinearP(eqx.Module):
        g: jnp.ndarray
        p0: jnp.ndarray

        def __call__(self, z):
            return self.g * z[0] + self.p0

    class CurlOfStream(eqx.Module):
        inner: eqx.Module

        def __call__(self, z):
            g = jax.grad(lambda zz: self.inner(zz)[0])(z)
            return jnp.stack([g[1], -g[0]])

    return dict(BurgersRational=BurgersRational, BurgersWave=BurgersWave, Logistic=Logistic, OUDensity=OUDensity,
                Poiseuille=Poiseuille, LinearP=LinearP, CurlOfStream=CurlOfStream)


def _pinn(mod, eq_type, m=1):
    import jax.numpy as jnp
    import jinns

    from vpkit.fields import _ident_in, _ident_out

    u = jinns.utils.PINN(mlp=mod, slice_solution=jnp.s_[0:m], eq_type=eq_type, input_transform=_ident_in,
                         output_transform=_ident_out)
    return u, u.init_params()


def run_exact(case):
    import jax
    import jax.numpy as jnp

    C = _exact_classes()
    kind = case["kind"]
    f = lambda v: jnp.asarray(v, dtype=float)
    labels = ["exact", kind]
    L, P = _L(), _P()
    if kind == "burgers_rational":
        T, c, nu, t, x = case["Tmax"], case["c"], case["nu"], case["t"], case["x"]
        u, p = _pinn(C["BurgersRational"](f(T), f(c)), "nonstatio_PDE")
        got = L.BurgerEquation(Tmax=T).evaluate(f([t]), f([x]), u, P.Params(nn_params=p, eq_params={"nu": f(nu)}))
        scale = abs(x * T / (T * t + c) ** 2)
    elif kind == "burgers_wave":
        T, a, b, nu, t, x = case["Tmax"], case["a"], case["b"], case["nu"], case["t"], case["x"]
        u, p = _pinn(C["BurgersWave"](f(a), f(b), f(T), f(nu)), "nonstatio_PDE")
        got = L.BurgerEquation(Tmax=T).evaluate(f([t]), f([x]), u, P.Params(nn_params=p, eq_params={"nu": f(nu)}))
        th = math.tanh(b * (x - a * T * t) / (2 * nu))
        scale = abs(T * nu * b**3 / (2 * nu**2) * th * (1 - th**2)) + abs(a * T * b * b / (2 * nu) * (1 - th**2))
    elif kind == "fisher_logistic":
        T, D, r, g, A, t, x = case["Tmax"], case["D"], case["r"], case["g"], case["A"], case["t"], case["x"]
        u, p = _pinn(C["Logistic"](f(r / g), f(A), f(r * T)), "nonstatio_PDE")
        got = L.FisherKPP(Tmax=T).evaluate(f([t]), f(x), u, P.Params(nn_params=p, eq_params={"D": f(D), "r": f(r), "g": f(g)}))
        uu = (r / g) / (1 + A * math.exp(-r * T * t))
        scale = abs(T * uu * r) + abs(T * g * uu * uu)
    elif kind == "ou_density":
        T, al, mu, sg, x0, t0, t, x = (case[k] for k in ("Tmax", "alpha", "mu", "sigma", "x0", "t0", "t", "x"))
        alv = al if isinstance(al, list) else [al, al]
        mod = C["OUDensity"](f(T), f(alv), f(mu), f(sg), f(x0), f(t0))
        u, p = _pinn(mod, "nonstatio_PDE")
        got = L.OU_FPENonStatioLoss2D(Tmax=T).evaluate(
            f([t]), f(x), u, P.Params(nn_params=p, eq_params={"alpha": f(al), "mu": f(mu), "sigma": f(sg)}))
        dudt = jax.grad(lambda tt: mod(jnp.concatenate([tt, f(x)])))(f([t]))
        scale = float(jnp.abs(dudt)[0])
    elif kind == "poiseuille":
        c, h, rho, nu, p0, x = (case[k] for k in ("c", "h", "rho", "nu", "p0", "x"))
        u, pu = _pinn(C["Poiseuille"](f(c), f(h)), "statio_PDE", m=2)
        pn, pp = _pinn(C["LinearP"](f(-2 * c * nu * rho), f(p0)), "statio_PDE")
        pd = P.ParamsDict(nn_params={"u": pu, "p": pp}, eq_params={"rho": f(rho), "nu": f(nu)})
        got = L.NavierStokes2DStatio(u_key="u", p_key="p").evaluate(f(x), {"u": u, "p": pn}, pd)
        scale = abs(2 * c * nu)
    elif kind == "stream":
        from vpkit.fields import make_field_module

        inner = make_field_module(case["field"])
        u, p = _pinn(C["CurlOfStream"](inner), "statio_PDE", m=2)
        pd = P.ParamsDict(nn_params={"vel": p}, eq_params={"rho": f(1.0)})
        got = L.MassConservation2DStatio(nn_key="vel").evaluate(f(case["x"]), {"vel": u}, pd)
        H = Field(case["field"]).hess(case["x"])
        scale = abs(H[0, 0, 1])
    elif kind == "glv_logistic":
        T, r, a0, c, A, t = (case[k] for k in ("Tmax", "r", "a0", "c", "A", "t"))
        K = -r / (a0 - c)
        u, p = _pinn(C["Logistic"](f(K), f(A), f(r * T)), "ODE")
        pd = P.ParamsDict(nn_params={"n": p}, eq_params={"n": {"growth_rate": f(r), "carrying_capacity": f(c),
                                                               "interactions": f([a0])}})
        got = L.GeneralizedLotkaVolterra(key_main="n", keys_other=[], Tmax=T).evaluate(f([t]), {"n": u}, pd)
        uu = K / (1 + A * math.exp(-r * T * t))
        scale = abs(T * r) + abs(T * (a0 - c) * uu)
    else:
        raise ValueError(kind)
    got = np.asarray(got, dtype=np.float64)
    err = float(np.max(np.abs(got)))
    if not err <= 1e-8 * (1 + scale):
        return fail(f"exact-{kind}-does-not-vanish", {"residual": got.tolist(), "scale": scale}, labels=labels)
    return ok(nontrivial=scale > 1e-3, labels=labels, detail={"residual": got.tolist(), "scale": scale})


# ----------------------------------------------------------------- strategies
def _pos(lo=0.05, hi=3.0):
    from hypothesis import strategies as st

    return st.integers(int(lo * 32) + 1, int(hi * 32)).map(lambda k: k / 32.0)


def _tmax():
    from hypothesis import strategies as st

    return st.one_of(st.sampled_from([0.5, 2.0, 10.0, 50.0, 0.125]), _pos(0.1, 8.0))


def strat_A():
    from hypothesis import strategies as st

    @st.composite
    def s(draw):
        eqn = draw(st.sampled_from(["burgers", "fisher", "ou", "glv", "mass", "ns"]))
        case = {"eq": eqn}
        if eqn == "burgers":
            case.update(field=draw(field_specs(2, 1)), t=draw(q16(0, 1)), x=draw(q16(-2, 2)), nu=draw(_pos()),
                        Tmax=draw(_tmax()))
        elif eqn == "fisher":
            d = draw(st.integers(1, 3))
            case.update(field=draw(field_specs(1 + d, 1)), t=draw(q16(0, 1)), x=[draw(q16(-2, 2)) for _ in range(d)],
                        D=draw(_pos()), r=draw(_pos()), g=draw(_pos()), Tmax=draw(_tmax()))
        elif eqn == "ou":
            vec = draw(st.booleans())
            case.update(field=draw(field_specs(3, 1)), t=draw(q16(0, 1)), x=[draw(q16(-2, 2)) for _ in range(2)],
                        alpha=[draw(_pos()), draw(_pos())] if vec else draw(_pos()),
                        mu=[draw(q16(-2, 2)), draw(q16(-2, 2))], sigma=[draw(_pos(0.5, 3)), draw(_pos(0.5, 3))],
                        Tmax=draw(_tmax()))
        elif eqn == "glv":
            K = draw(st.integers(0, 3))
            names = draw(st.lists(st.sampled_from(["n1", "n2", "prey", "pred", "u", "v", "x", "0", "a"]),
                                  min_size=K + 1, max_size=K + 1, unique=True))
            case.update(keys=names, fields=[draw(field_specs(1, 1, post="exp", quad=False, gauss=False, lin=True))
                                            for _ in range(K + 1)],
                        t=draw(q16(0, 1)), r=draw(_pos()), c=draw(q16(-2, 2)), a=[draw(q16(-2, 2)) for _ in range(K + 1)],
                        Tmax=draw(_tmax()), layout=draw(st.sampled_from(["per_key", "flat"])),
                        t_shape=draw(st.sampled_from(["vec", "vec", "scalar"])))
        elif eqn == "mass":
            case.update(field=draw(field_specs(2, 2)), x=[draw(q16(-2, 2)) for _ in range(2)],
                        key=draw(st.sampled_from(["u", "vel", "w"])), other_keys=draw(st.sampled_from([[], ["p"]])))
        else:
            uk, pk = draw(st.sampled_from([("u", "p"), ("vel", "press"), ("p", "u")]))
            case.update(ufield=draw(field_specs(2, 2)), pfield=draw(field_specs(2, 1)),
                        x=[draw(q16(-2, 2)) for _ in range(2)], rho=draw(_pos(0.5, 3)), nu=draw(_pos()), u_key=uk, p_key=pk)
        return case

    return s()


RUNNERS = {"burgers": run_burgers, "fisher": run_fisher, "ou": run_ou, "glv": run_glv, "mass": run_mass, "ns": run_ns}


def run_A(case):
    return RUNNERS[case["eq"]](case)


def strat_B():
    from hypothesis import strategies as st

    @st.composite
    def s(draw):
        kind = draw(st.sampled_from(["burgers_rational", "burgers_wave", "fisher_logistic", "ou_density", "poiseuille",
                                     "stream", "glv_logistic"]))
        c = {"kind": kind}
        if kind == "burgers_rational":
            c.update(Tmax=draw(_tmax()), c=draw(_pos(0.5, 3)), nu=draw(_pos()), t=draw(q16(0, 1)), x=draw(q16(-2, 2, nonzero=True)))
        elif kind == "burgers_wave":
            c.update(Tmax=draw(_pos(0.1, 4)), a=draw(q16(-1, 1)), b=draw(_pos(0.25, 1.5)), nu=draw(_pos(0.25, 3)), t=draw(q16(0, 1)),
                     x=draw(q16(-2, 2)))
        elif kind == "fisher_logistic":
            d = draw(st.integers(1, 3))
            c.update(Tmax=draw(_pos(0.1, 4)), D=draw(_pos()), r=draw(_pos()), g=draw(_pos()), A=draw(_pos(0.25, 3)), t=draw(q16(0, 1)),
                     x=[draw(q16(-2, 2)) for _ in range(d)])
        elif kind == "ou_density":
            vec = draw(st.booleans())
            c.update(Tmax=draw(_pos(0.1, 4)), alpha=[draw(_pos(0.25, 2)), draw(_pos(0.25, 2))] if vec else draw(_pos(0.25, 2)),
                     mu=[draw(q16(-1, 1)), draw(q16(-1, 1))], sigma=[draw(_pos(0.5, 2)), draw(_pos(0.5, 2))],
                     x0=[draw(q16(-1, 1)), draw(q16(-1, 1))], t0=draw(_pos(0.25, 1)), t=draw(q16(0, 1)),
                     x=[draw(q16(-1.5, 1.5)), draw(q16(-1.5, 1.5))])
        elif kind == "poiseuille":
            c.update(c=draw(q16(-2, 2, nonzero=True)), h=draw(_pos(0.5, 3)), rho=draw(_pos(0.5, 3)), nu=draw(_pos()), p0=draw(q16(-2, 2)),
                     x=[draw(q16(-2, 2)), draw(q16(-2, 2))])
        elif kind == "stream":
            c.update(field=draw(field_specs(2, 1)), x=[draw(q16(-2, 2)), draw(q16(-2, 2))])
        else:
            cc = draw(q16(-1, 1))
            c.update(Tmax=draw(_pos(0.1, 4)), r=draw(_pos()), c=cc, a0=cc - draw(_pos(0.25, 2)), A=draw(_pos(0.25, 3)), t=draw(q16(0, 1)))
        return c

    return s()


def subchecks():
    return [
        SubCheck(name="closed_form_residuals", mode="given", strategy=strat_A, run_case=run_A,
                 counts={"quick": 240, "thorough": 9000}, shards={"quick": 6, "thorough": 16}, clear_every=80,
                 min_nontrivial_frac=0.3,
                 doc="residual of each built-in equation on random analytic candidate solutions vs closed form"),
        SubCheck(name="exact_solutions_vanish", mode="given", strategy=strat_B, run_case=run_exact,
                 counts={"quick": 70, "thorough": 2000}, shards={"quick": 2, "thorough": 16}, clear_every=80,
                 doc="exact solutions of each equation: residual must vanish"),
    ]
