"""C19 - validation is called on schedule; early stopping and best parameters follow it."""
from __future__ import annotations

import functools
import itertools

import numpy as np

from vpkit import SubCheck, fail, ok
from vpkit.training import diverges, make_program, next_batch, quiet, reference_loop, tree_close, verbosity

PROPERTY = "C19"
LEVEL = "exploration"
RULE = (
    "(a) scripted validation module (a subclass of AbstractValidationModule whose k-th call returns scripted (stop, "
    "improved) flags and, as its criterion, a fingerprint of the parameters it received): ALL scripts of length L over "
    "{stop,continue} x {improved,not} are enumerated (L <= 3 quick, L <= 4 thorough) for call_every in {1,2,3} and "
    "iteration counts with trailing non-invocation iterations; one compiled solve per (program, call_every, L), scripts "
    "are array arguments. (b) ValidationLoss driven directly with harness-chosen parameter sequences giving any sequence "
    "of validation losses (ties and strict minima), patience 0..4, early stopping on/off, own data / parameter "
    "generators. (c) ValidationLoss through jinns.solve. Oracle: python model - invoked iff i % call_every == 0 with the "
    "post-update parameters (fingerprint == reference loop's parameters after iteration i), criterion recorded there and "
    "carried forward, run stops right after the first stop request, best parameters = those of the last invocation that "
    "flagged an improvement (initial parameters if none did); ValidationLoss: improved = loss < best (strict) on its own "
    "next batch, stop = early_stopping and counter_before == patience. Non-trivial = >=2 invocations with a "
    "non-invocation iteration in between or call_every == 1 with >= 2 invocations, and an improvement that is not the "
    "first invocation; distinct_nontrivial counts distinct (program, script) pairs."
)
ASSUMPTIONS = ["if no invocation flags an improvement the best parameters are the initial ones (what the code returns and "
               "the only reading compatible with the statement)", "rtol 1e-7 for jitted vs eager values"]


@functools.lru_cache(maxsize=None)
def scripted_cls():
    import equinox as eqx
    import jax
    import jax.numpy as jnp
    from jinns.validation._validation import AbstractValidationModule

    class Scripted(AbstractValidationModule):
        stops: jnp.ndarray
        improves: jnp.ndarray
        counter: jnp.ndarray
        call_every: int = eqx.field(kw_only=True, default=1)

        def __call__(self, params):
            k = jnp.minimum(self.counter, self.stops.shape[0] - 1)
            new = eqx.tree_at(lambda m: m.counter, self, self.counter + 1)
            return new, self.stops[k], fingerprint(params), self.improves[k]

    return Scripted


def fingerprint(params):
    import jax
    import jax.numpy as jnp

    tot = 0.0
    for j, l in enumerate(jax.tree_util.tree_leaves(params)):
        tot = tot + (j + 1.0) * jnp.sum(jnp.sin(l) + 0.5 * l)
    return tot


def prog_cfg(kind, variant, opt):
    from checks.c18_nan_stop import base_cfg

    return base_cfg(kind, variant, opt, "none")


def run_scripts(case):
    import jax
    import jax.numpy as jnp
    import jinns

    cfg, ce, L, n_iter = case["cfg"], case["call_every"], case["L"], case["n_iter"]
    labels = [cfg["kind"], cfg["opt"], f"every{ce}", f"L{L}"] + (["verbose"] if cfg.get("verbose") else [])
    prog = make_program(cfg)
    ref = reference_loop(prog, n_iter)
    fps = [float(fingerprint(p)) for p in ref["params"]]  # fps[i+1] = after iteration i
    Scripted = scripted_cls()

    def run(stops, improves):
        val = Scripted(stops=stops, improves=improves, counter=jnp.zeros((), dtype=jnp.int32), call_every=ce)
        out = jinns.solve(n_iter=n_iter, init_params=prog["params"], data=prog["data"], loss=prog["loss"],
                          optimizer=prog["optimizer"], validation=val, **verbosity(cfg))
        return out[0], out[1], out[7], out[8]

    jrun = jax.jit(run)
    scripts = list(itertools.product([False, True], repeat=2 * L))
    if case.get("subset") is not None:
        scripts = [scripts[i] for i in case["subset"] if i < len(scripts)]
    checked = nt_count = 0
    for sc in scripts:
        stops, improves = list(sc[:L]), list(sc[L:])
        with quiet():
            params, losses, vcrit, best = jrun(jnp.asarray(stops), jnp.asarray(improves))
        losses, vcrit = np.asarray(losses, dtype=np.float64), np.asarray(vcrit, dtype=np.float64)
        # ---- model
        want_crit = np.zeros(n_iter)
        stop_iter = n_iter - 1
        best_idx = 0  # index into ref["params"] (0 = initial)
        inv = 0
        last = 0.0
        for i in range(n_iter):
            if i % ce == 0:
                k = min(inv, L - 1)
                last = fps[i + 1]
                if improves[k]:
                    best_idx = i + 1
                want_crit[i] = last
                inv += 1
                if stops[k]:
                    stop_iter = i
                    break
            else:
                want_crit[i] = last
        detail = {"stops": stops, "improves": improves, "call_every": ce, "n_iter": n_iter}
        ran = int(np.count_nonzero(losses))
        if ran != stop_iter + 1:
            return fail("stopping-iteration", dict(detail, iterations_run=ran, model=stop_iter + 1), labels=labels)
        if not np.allclose(losses[: ran], ref["loss"][: ran], rtol=1e-7):
            return fail("loss-history-with-validation", detail, labels=labels)
        if not np.allclose(vcrit, want_crit, rtol=1e-7, atol=1e-10):
            return fail("validation-criterion-history", dict(detail, got=vcrit.tolist(), want=want_crit.tolist(),
                                                             explain="criterion = fingerprint of the parameters the module received"),
                        labels=labels)
        okb, why = tree_close(best, ref["params"][best_idx], rtol=1e-7)
        if not okb:
            which = [j for j in range(len(ref["params"])) if tree_close(best, ref["params"][j], rtol=1e-7)[0]]
            return fail("best-validation-params", dict(detail, model_iteration=best_idx - 1, returned_equals_params_after=[w - 1 for w in which]),
                        labels=labels)
        okp, why = tree_close(params, ref["params"][stop_iter + 1], rtol=1e-7)
        if not okp:
            return fail("final-params-with-validation", detail, labels=labels)
        checked += 1
        later_improve = any(improves[k] for k in range(1, min(L, inv)))
        if inv >= 2 and later_improve:
            nt_count += 1
    v = ok(nontrivial=nt_count > 0, labels=labels, count=checked, detail={"scripts": checked, "nontrivial_scripts": nt_count})
    return v


def enum_scripts(tier):
    Ls = [1, 2, 3] if tier == "quick" else [1, 2, 3, 4]
    progs = [("ode", 0, "sgd"), ("statio", 1, "adam")] if tier == "quick" else \
        [("ode", 0, "sgd"), ("statio", 1, "adam"), ("nonstatio", 2, "clip_adam"), ("ode", 3, "adam")]
    j = 0
    for L in Ls:
        for ce in (1, 2, 3):
            kind, var, opt = progs[j % len(progs)]
            j += 1
            for extra in ([0, ce - 1] if ce > 1 else [0]):
                n_iter = (L - 1) * ce + 1 + extra
                if n_iter > 12:
                    continue
                # solve()'s printing options alternate over the enumeration (they select other loop-exit / printing code)
                vb = {"verbose": bool((j + extra) % 2), "print_every": [1, 2, 1000][(j + L) % 3]}
                case = {"cfg": dict(prog_cfg(kind, var, opt), **vb), "call_every": ce, "L": L, "n_iter": n_iter}
                if tier == "quick" and L == 3:
                    # 64 scripts: split in 2 halves over two programs
                    yield dict(case, subset=list(range(0, 64, 2)))
                    yield dict(case, cfg=dict(prog_cfg(*progs[(j + 1) % len(progs)]), verbose=not vb["verbose"], print_every=1),
                               subset=list(range(1, 64, 2)))
                elif L == 4:
                    for b in range(4):
                        yield dict(case, subset=list(range(b * 64, (b + 1) * 64)))
                else:
                    yield case


# ------------------------------------------------------------------ ValidationLoss driven directly
def _val_program(cfg):
    """loss whose value on a batch is theta^2 * mean(t^2) (+ kappa terms): any sequence of losses is reachable."""
    import jax
    import jax.numpy as jnp
    import jinns

    from vpkit import problems as P

    field = {"din": 1, "m": 1, "post": "id", "sin": [[]], "quad": None, "gauss": None, "mono": None, "lin": [[0.0, [0.0]]]}
    u, nn = P.make_net({"field": field, "transform": "none"}, "ODE")
    spec = {"kind": "ode", "eq_params": {"theta": 0.0, "kappa": 0.0},
            # features: [u0, du0/dt, t, u0*p0, u_last^2, 1, kappa, theta] ; residual = theta * 1 + kappa
            "eq": {"coef": [[0.0, 0.0, 0.0, 0.0, 0.0, 0.0, 1.0, 1.0]]}, "hetero": None}
    dyn = P.make_equation(spec)
    params0 = jinns.parameters.Params(nn_params=nn, eq_params={"theta": jnp.asarray(1.0), "kappa": jnp.asarray(0.0)})
    import warnings

    with warnings.catch_warnings():
        warnings.simplefilter("ignore")
        loss = jinns.loss.LossODE(u=u, dynamic_loss=dyn, initial_condition=None, params=params0,
                                  loss_weights=jinns.loss.LossWeightsODE(dyn_loss=cfg["w"], observations=0.5))
    data = jinns.data.DataGeneratorODE(jax.random.PRNGKey(cfg["key"]), cfg["nt"], 0.0, 1.0, cfg["bt"])
    pdat = None
    if cfg["param_gen"]:
        pdat = jinns.data.DataGeneratorParameter(jax.random.PRNGKey(cfg["key"] + 1), cfg["nt"] + 2, cfg["bt"],
                                                 param_ranges={"kappa": (0.0, 0.5)})
    odat = None
    if cfg.get("obs_gen"):
        nobs = cfg["nt"] + 3
        idx = jnp.arange(nobs, dtype=float)
        odat = jinns.data.DataGeneratorObservations(jax.random.PRNGKey(cfg["key"] + 2), cfg["bt"], idx[:, None] * 0.1,
                                                    (0.25 + 0.125 * idx)[:, None])
    return loss, params0, data, pdat, odat


def run_direct(case):
    import equinox as eqx
    import jax.numpy as jnp
    import jinns
    from jinns.validation._validation import ValidationLoss

    cfg = case["cfg"]
    labels = ["direct", f"patience{cfg['patience']}", "early-stopping" if cfg["early"] else "no-early-stopping"]
    loss, params0, data, pdat, odat = _val_program(cfg)
    val = ValidationLoss(loss=loss, validation_data=data, validation_param_data=pdat, validation_obs_data=odat, call_every=1,
                         early_stopping=cfg["early"], patience=cfg["patience"])
    rdata, rpdat, rodat = data, pdat, odat
    best = float("inf")
    counter = 0
    improvements = 0
    for j, th in enumerate(cfg["thetas"]):
        p = eqx.tree_at(lambda q: q.eq_params["theta"], params0, jnp.asarray(th))
        new, stop, crit, improved = val(p)
        # reference: loss on the module's own next batch
        batch, rdata, rpdat, rodat = next_batch(rdata, rpdat, rodat)
        want = float(loss.evaluate(p, batch)[0])
        kap = np.zeros(cfg["bt"]) if pdat is None else np.asarray(batch.param_batch_dict["kappa"])[:, 0]
        formula = cfg["w"] * float(np.mean((th + kap) ** 2))
        if odat is not None:  # u == 0: the observation term is 0.5 * mean(val^2) over the module's own observation batch
            formula += 0.5 * float(np.mean(np.asarray(batch.obs_batch_dict["val"]) ** 2))
        if not abs(want - formula) <= 1e-9 * (1 + abs(formula)):
            return fail("harness-formula", {"want": want, "formula": formula}, labels=labels)
        if not abs(float(crit) - formula) <= 1e-9 * (1 + abs(formula)):
            return fail("validation-loss-not-on-its-own-next-batch", {"call": j, "got": float(crit), "want": formula}, labels=labels)
        m_improved = formula < best
        m_stop = bool(cfg["early"] and counter == cfg["patience"])
        if bool(improved) != m_improved:
            return fail("improvement-flag", {"call": j, "loss": formula, "best_so_far": best, "got": bool(improved),
                                             "want": m_improved, "losses": cfg["thetas"]}, labels=labels)
        if bool(stop) != m_stop:
            return fail("stop-request", {"call": j, "counter_before": counter, "patience": cfg["patience"], "early": cfg["early"],
                                         "got": bool(stop), "want": m_stop}, labels=labels)
        if m_improved:
            best, counter = formula, 0
            improvements += 1
        else:
            counter += 1
        val = new
    ties = len(set(cfg["thetas"])) < len(cfg["thetas"])
    if ties:
        labels.append("ties")
    return ok(nontrivial=len(cfg["thetas"]) >= 3 and improvements >= 2, labels=labels)


def strat_direct():
    from hypothesis import strategies as st

    @st.composite
    def s(draw):
        nt = draw(st.integers(2, 6))
        cfg = {"nt": nt, "bt": draw(st.integers(1, nt)), "key": draw(st.integers(0, 10**6)), "w": draw(st.sampled_from([1.0, 0.5, 2.0])),
               "param_gen": draw(st.booleans()), "obs_gen": draw(st.booleans()), "patience": draw(st.integers(0, 4)), "early": draw(st.booleans()),
               "thetas": draw(st.lists(st.sampled_from([2.0, 1.5, 1.25, 1.0, 0.75, 0.5, 0.25]), min_size=2, max_size=9))}
        return {"cfg": cfg}

    return s()


# ------------------------------------------------------------------ ValidationLoss through solve
def run_solve_validation(case):
    import jax
    import jinns
    from jinns.validation._validation import ValidationLoss

    cfg, vc = case["cfg"], case["val"]
    n_iter, ce = case["n_iter"], vc["call_every"]
    labels = [cfg["kind"], cfg["opt"], "ValidationLoss-through-solve", f"every{ce}"]
    prog = make_program(cfg)
    vcfg = dict(cfg, data_key=cfg["data_key"] + 1000)
    vprog = make_program(vcfg)
    val = ValidationLoss(loss=prog["loss"], validation_data=vprog["data"], call_every=ce, early_stopping=vc["early"],
                         patience=vc["patience"])
    if cfg.get("verbose"):
        labels.append("verbose")
    with quiet():
        out = jinns.solve(n_iter=n_iter, init_params=prog["params"], data=prog["data"], loss=prog["loss"],
                          optimizer=prog["optimizer"], validation=val, **verbosity(cfg))
    ref = reference_loop(prog, n_iter)
    if diverges(ref["loss"]):
        return ok(nontrivial=False, labels=labels + ["diverged-skipped"])
    vdata = vprog["data"]
    best, counter, best_idx = float("inf"), 0, 0
    want_crit = np.zeros(n_iter)
    stop_iter = n_iter - 1
    last = 0.0
    inv = 0
    for i in range(n_iter):
        if i % ce == 0:
            vdata, vb = vdata.get_batch()
            v = float(prog["loss"].evaluate(ref["params"][i + 1], vb)[0])
            stop = bool(vc["early"] and counter == vc["patience"])
            if v < best:
                best, counter, best_idx = v, 0, i + 1
            else:
                counter += 1
            last = v
            inv += 1
            want_crit[i] = v
            if stop:
                stop_iter = i
                break
        else:
            want_crit[i] = last
    losses = np.asarray(out[1], dtype=np.float64)
    ran = int(np.count_nonzero(losses))
    detail = {"call_every": ce, "patience": vc["patience"], "early": vc["early"], "n_iter": n_iter}
    if ran != stop_iter + 1:
        return fail("stopping-iteration", dict(detail, iterations_run=ran, model=stop_iter + 1, via="ValidationLoss"), labels=labels)
    vcrit = np.asarray(out[7], dtype=np.float64)
    if not np.allclose(vcrit, want_crit, rtol=1e-6, atol=1e-10):
        return fail("validation-criterion-history", dict(detail, got=vcrit.tolist(), want=want_crit.tolist(), via="ValidationLoss"),
                    labels=labels)
    okb, _ = tree_close(out[8], ref["params"][best_idx], rtol=1e-6)
    if not okb:
        return fail("best-validation-params", dict(detail, model_iteration=best_idx - 1, via="ValidationLoss"), labels=labels)
    return ok(nontrivial=inv >= 2, labels=labels + (["stopped-early"] if stop_iter < n_iter - 1 else []),
              detail={"invocations": inv, "stop": stop_iter})


def strat_solve_validation():
    from hypothesis import strategies as st

    from vpkit.training import program_cfgs

    @st.composite
    def s(draw):
        cfg = draw(program_cfgs(kinds=("ode", "statio", "nonstatio"), aux=False, max_iter=8))
        cfg["tracked"] = "none"
        # ascent / descent / noisy optimizers give improving and non-improving sequences
        cfg["opt"] = draw(st.sampled_from(["sgd", "adam", "sgd_piecewise", "sgd_momentum"]))
        return {"cfg": cfg, "n_iter": draw(st.integers(3, 9)),
                "val": {"call_every": draw(st.integers(1, 3)), "patience": draw(st.integers(0, 2)), "early": draw(st.booleans())}}

    return s()


def subchecks():
    return [
        SubCheck(name="scripted_module_exhaustive", mode="enum", enumerate=enum_scripts, run_case=run_scripts,
                 shards={"quick": 8, "thorough": 16}, clear_every=2,
                 doc="all scripts of (stop, improved) flags of length L for call_every 1..3 through jinns.solve"),
        SubCheck(name="validation_loss_direct", mode="given", strategy=strat_direct, run_case=run_direct,
                 counts={"quick": 120, "thorough": 3000}, shards={"quick": 4, "thorough": 16}, clear_every=30,
                 min_nontrivial_frac=0.25, doc="ValidationLoss.__call__ on harness-chosen parameter sequences vs model"),
        SubCheck(name="validation_loss_through_solve", mode="given", strategy=strat_solve_validation, run_case=run_solve_validation,
                 counts={"quick": 16, "thorough": 400}, shards={"quick": 8, "thorough": 16}, clear_every=3,
                 min_nontrivial_frac=0.3, doc="ValidationLoss with its own generator inside jinns.solve vs model on the reference loop"),
    ]
