"""C18 - on non-finite parameters training stops and returns the last finite ones."""
from __future__ import annotations

import numpy as np

from vpkit import SubCheck, fail, ok
from vpkit.training import faulty_optimizer, make_program, optimizer, quiet, reference_loop, tree_close, verbosity

PROPERTY = "C18"
LEVEL = "fault_enumeration"
RULE = (
    "fault = (iteration index k, origin) ; every k in 0..n-1 is enumerated for n=5 (quick) / n in {3,5,8} (thorough) x "
    "origin in {optimizer update of an nn leaf, optimizer update of an equation parameter, gradient of an nn leaf, "
    "gradient of an equation parameter, loss value; whole leaf or a single entry of a multi-entry leaf} x optimizer in {sgd, adam, clip+adam} x loss in {ODE, stationary}. "
    "The injection is deterministic and owned by the harness (an optax transformation with a step counter; for the "
    "loss-value origin an equation parameter advanced by +1 per step trips a NaN residual at iteration k). Oracle: the "
    "same program run by the eager reference loop with the same injection: training stops after iteration k, returned "
    "parameters == parameters held before iteration k (the initial ones if k == 0) and NaN-free, histories up to and "
    "including k equal the reference, later entries keep their initial value 0. Non-trivial = k >= 1 (parameters "
    "before iteration k differ from the initial ones) and k < n-1 (the stop is early)."
)
ASSUMPTIONS = ["rtol 1e-7 between jitted solve and eager reference (x64); NaN entries compared as equal"]

ORIGINS = ["update_nn", "update_eq", "grad_nn", "grad_eq", "loss_value", "update_nn_partial", "grad_nn_partial"]


def base_cfg(kind, variant, opt, tracked):
    r = np.random.RandomState(7 + variant)
    q = lambda lo, hi: float(np.round(r.uniform(lo, hi) * 16) / 16) or 0.5
    d = 0 if kind == "ode" else 1 + variant % 2
    cfg = {"kind": kind, "dim": d, "opt": opt, "theta": 0.75 + 0.25 * (variant % 3), "alpha": 1.25, "u0": 0.5,
           "data_key": 11 + variant, "tracked": tracked,
           "net": {"type": "mlp", "width": 3, "act": "tanh", "key": variant} if variant % 2 else
           {"type": "field", "field": {"din": d + (0 if kind == "statio" else 1), "m": 1, "post": "id", "mono": None, "lin": None,
                                       "gauss": None, "quad": [[[q(-0.5, 0.5)] * (d + (0 if kind == "statio" else 1))] *
                                                               (d + (0 if kind == "statio" else 1))],
                                       "sin": [[[q(0.5, 1.5), q(-1, 1), [q(0.5, 1.5)] * (d + (0 if kind == "statio" else 1))]]]}},
           "coef": [q(0.5, 1), q(0.5, 1), q(-1, 1), q(-1, 1), q(-0.5, 0.5), q(-1, 1), q(0.5, 1), q(0.5, 1)]}
    if kind in ("ode", "nonstatio"):
        cfg.update(nt=5, bt=2)
    if kind != "ode":
        cfg.update(n=5, bx=2, border=bool(variant % 2), fn=2, bb=1)
    return cfg


def run_case(case):
    import jax
    import jinns

    cfg, k, origin, n = case["cfg"], case["k"], case["origin"], case["n_iter"]
    labels = [cfg["kind"], cfg["opt"], origin, f"k{k}"]
    if origin == "loss_value":
        cfg = dict(cfg, trip=k)
    prog = make_program(cfg)
    prog["optimizer"] = faulty_optimizer(optimizer(cfg["opt"]), k, origin)
    ref = reference_loop(prog, n, stop_on_nan=True)
    ran = len(ref["loss"])
    if ran != k + 1:
        return fail("harness-injection-did-not-fire", {"ran": ran, "k": k}, labels=labels)
    if cfg.get("verbose"):
        labels.append("verbose")
    with quiet():
        out = jinns.solve(n_iter=n, init_params=prog["params"], data=prog["data"], loss=prog["loss"], optimizer=prog["optimizer"],
                          tracked_params=prog["tracked"], **verbosity(cfg))
    params, losses, terms, data, _, opt_state, stored, _, _ = out
    leaves = jax.tree_util.tree_leaves(params)
    if any(bool(np.any(np.isnan(np.asarray(l)))) for l in leaves):
        return fail("returned-params-contain-nan", {"k": k, "origin": origin}, labels=labels)
    okp, why = tree_close(params, ref["params"][k], rtol=1e-7)
    if not okp:
        okq, _ = tree_close(params, ref["params"][0], rtol=1e-7)
        return fail("returned-params-are-not-those-before-the-failing-iteration",
                    {"k": k, "origin": origin, "why": why, "equal_to_initial": bool(okq)}, labels=labels)
    losses = np.asarray(losses, dtype=np.float64)
    want = np.zeros(n)
    want[: k + 1] = ref["loss"]
    if not np.allclose(losses, want, rtol=1e-7, atol=1e-12, equal_nan=True):
        return fail("loss-history-around-the-fault", {"k": k, "got": losses.tolist(), "want": want.tolist()}, labels=labels)
    if np.any(losses[k + 1:] != 0.0):
        return fail("training-continued-after-nan", {"k": k, "got": losses.tolist()}, labels=labels)
    for name, arr in terms.items():
        arr = np.asarray(arr, dtype=np.float64)
        w = np.zeros(n)
        w[: k + 1] = [t[name] for t in ref["terms"]]
        if not np.allclose(arr, w, rtol=1e-7, atol=1e-12, equal_nan=True):
            return fail("term-history-around-the-fault", {"term": name, "got": arr.tolist(), "want": w.tolist()}, labels=labels)
    if prog["tracked"] is not None:
        from vpkit.training import tracked_mismatch

        bad = tracked_mismatch(prog["tracked"], stored, ref["params"][1:], n)
        if bad is not None:
            return fail("tracked-history-around-the-fault", bad, labels=labels)
    return ok(nontrivial=1 <= k < n - 1, labels=labels, detail={"k": k, "n_iter": n})


def enum_faults(tier):
    ns = [5] if tier == "quick" else [3, 5, 8]
    j = 0
    for n in ns:
        for origin in ORIGINS:
            for k in range(n):
                combos = [("ode", "sgd"), ("statio", "adam"), ("ode", "clip_adam"), ("statio", "sgd"), ("ode", "adam"),
                          ("statio", "clip_adam")]
                sel = [combos[j % len(combos)], combos[(j + 3) % len(combos)]] if tier == "quick" else combos
                for kind, opt in sel:
                    j += 1
                    # solve()'s printing options (verbose, print_loss_every) alternate over the enumeration
                    cfg = dict(base_cfg(kind, j % 4, opt, ["one", "none", "all", "nn"][j % 4]), verbose=bool(((j // 4) + j) % 2),
                               print_every=[1, 2, 1000][j % 3])
                    yield {"cfg": cfg, "k": k, "origin": origin, "n_iter": n}


def subchecks():
    return [
        SubCheck(name="nan_fault_every_iteration", mode="enum", enumerate=enum_faults, run_case=run_case,
                 shards={"quick": 8, "thorough": 16}, clear_every=3,
                 exhaustive={"quick": False, "thorough": True}, doc="every fault position k x origin, solve vs eager reference with the same injection"),
    ]
