"""C05 - initial-condition, normalisation and observation terms match their definitions."""
from __future__ import annotations

import numpy as np

from vpkit import SubCheck, fail, ok
from vpkit.problems import build_single, net_all, ref_terms
from vpkit.strats import single_spec

PROPERTY = "C05"
LEVEL = "exploration"
RULE = (
    "cases = loss specs (ODE / stationary / non-stationary) with at least one of: initial condition (ODE (t0,u0) with "
    "scalar/vector u0; PDE initial function returning (), (1,) or (m,)), normalisation (2..8 sample points, arbitrary "
    "positive volume, scalar density), observations (table of N rows, output slice, optional non-default slice_solution of a multi-output network, "
    "0..2 observed equation parameters given per row), optional per-sample parameter batch; networks whose output depends on the inputs and, through an "
    "output transform, on equation parameters (so row alignment is observable). Oracle: numpy loops written from the "
    "statement. Non-trivial = IC mismatch non-zero; u varies by >10% over the normalisation samples (mean of squares "
    "!= square of mean); observed parameter rows pairwise distinct and the network output sensitive to them. "
    "Sub-check large_batches: the same oracle with 33..2050 batch rows / observation rows (size classes around and beyond "
    "the block sizes 128 / 1024 of chunked evaluation), coordinates from a seeded lattice."
)
ASSUMPTIONS = ["tolerance 1e-9*(1+scale) in x64, 1e-3*(1+scale) in the 32-bit variant",
               "normalisation combined with a per-sample parameter batch is outside the domain (DESIGN 2.5)"]
TOL = 1e-9


def _tol():
    import jax

    return TOL if jax.config.jax_enable_x64 else 1e-3
TERMS = {"ic": "initial_condition", "norm": "norm_loss", "obs": "observations"}


def run_case(case):
    spec = case["spec"]
    labels = [spec["kind"]]
    want, _ = ref_terms(spec)
    loss, params, batch = build_single(spec)
    total, terms = loss.evaluate(params, batch)
    nt = True
    seen = 0
    for short, name in TERMS.items():
        if spec.get(short) is None:
            if name in terms and float(terms[name]) != 0.0:
                return fail(f"unconfigured-term-nonzero:{name}", {"value": float(terms[name])}, labels=labels)
            continue
        seen += 1
        got = float(terms[name])
        w = want[name]
        if not abs(got - w) <= _tol() * (1 + abs(w) + abs(got)):
            sub = ""
            if short == "obs":
                sub = ":observed-params" if spec["obs"].get("eq_params") else ":plain"
            return fail(f"{name}-value{sub}", {"got": got, "want": w, "kind": spec["kind"],
                                               "param_batch": bool(spec.get("param_batch"))}, labels=labels)
        labels.append(short)
        if short == "norm":
            eqp = {k: np.asarray(v, dtype=float) for k, v in spec["eq_params"].items()}
            t0 = [spec["batch"]["t"][0]] if spec["kind"] == "nonstatio" else []
            us = [net_all(spec["net"], np.array(t0 + list(s_)), eqp)[0][0] for s_ in spec["norm"]["samples"]]
            nt = nt and (max(us) - min(us)) > 0.1 * (abs(np.mean(us)) + 1e-9)
        if short == "ic":
            nt = nt and w > 1e-6
        if short == "obs" and spec["net"].get("slice_solution"):
            labels.append("slice_solution")
        if short == "obs" and spec["obs"].get("eq_params"):
            labels.append("obs-params")
            nt = nt and spec["net"]["transform"] != "none" and w > 1e-6
    if spec.get("param_batch"):
        labels.append("param-batch")
    if seen == 0:
        return ok(nontrivial=False, labels=labels + ["nothing-configured"])
    return ok(nontrivial=nt, labels=labels, detail={k: want[TERMS[k]] for k in TERMS if spec.get(k)})


def strat():
    from hypothesis import strategies as st

    @st.composite
    def s(draw):
        first = draw(st.sampled_from(["ic", "norm", "obs"]))
        spec = draw(single_spec(want=(first,), maybe=("ic", "norm", "obs", "eq"), param_batch="maybe", obs_params=True, slice_solution=True,
                                transform=draw(st.sampled_from(["scale", "affine", "none"]))))
        return {"spec": spec}

    return s()


def strat_big():
    from hypothesis import strategies as st

    @st.composite
    def s(draw):
        first = draw(st.sampled_from(["ic", "norm", "obs"]))
        kinds = ("statio", "nonstatio") if first == "norm" else ("ode", "statio", "nonstatio")
        spec = draw(single_spec(kinds=kinds, want=(first,), maybe=("ic", "norm", "obs", "eq"), param_batch="no" if first == "norm" else "maybe",
                                obs_params=True, slice_solution=True, big="always",
                                transform=draw(st.sampled_from(["scale", "affine", "none"]))))
        return {"spec": spec}

    return s()


def subchecks():
    return [
        SubCheck(name="ic_norm_obs_vs_reference", mode="given", strategy=strat, run_case=run_case,
                 counts={"quick": 200, "thorough": 4000}, shards={"quick": 8, "thorough": 16}, clear_every=60,
                 min_nontrivial_frac=0.3,
                 doc="initial-condition / normalisation / observation terms vs numpy loops written from the statement"),
        SubCheck(name="ic_norm_obs_vs_reference_f32", mode="given", strategy=strat, run_case=run_case, x64=False,
                 counts={"quick": 96, "thorough": 2000}, shards={"quick": 8, "thorough": 16}, clear_every=60,
                 min_nontrivial_frac=0.3,
                 doc="the same oracle in the library's default 32-bit precision (tolerance 1e-3 relative)"),
        SubCheck(name="large_batches", mode="given", strategy=strat_big, run_case=run_case,
                 counts={"quick": 36, "thorough": 600}, shards={"quick": 12, "thorough": 16}, clear_every=6,
                 min_nontrivial_frac=0.3,
                 doc="the same oracle on batches / tables of 33..2050 rows and up to 130 normalisation samples"),
    ]
