"""C03 - total = sum of terms; unconfigured terms exactly zero; dynamic term = batch-mean weighted residual MSE."""
from __future__ import annotations

import copy

import numpy as np

from vpkit import SubCheck, fail, ok
from vpkit.problems import build_single, ref_terms
from vpkit.strats import single_spec

PROPERTY = "C03"
LEVEL = "exploration"
RULE = (
    "cases = plain-JSON loss specs: kind in {ODE, stationary, non-stationary}, analytic-field network or real one-hidden-layer MLP from create_PINN (1..3 outputs, optional "
    "parameter-dependent output transform), user equation = random linear map (1..3 components) of features "
    "[u_0, d u_0/d(last coord), first coord, u_0*p_0, u_last^2, 1, all equation parameters], batch of 1..9 explicit "
    "points, scalar or per-component weight, random subset of the other terms (initial condition, boundary, "
    "normalisation, observations) configured. Oracles: total == sum(terms) (1e-12 rel); unconfigured terms == 0.0 "
    "exactly; dyn term == mean_i sum_c w_c r_c(point_i)^2 with r from numpy closed forms point by point; metamorphic: "
    "scaling weight component c by lambda adds (lambda-1) w_c mean r_c^2, batch permutation invariance, halves average. "
    "Non-trivial = batch>=2, row sums and column sums of the residual matrix pairwise distinct (>1e-6; for batches of more "
    "than 16 rows: at least 90% of the sorted row sums separated) and, for vector weights, weights not all equal. "
    "Sub-check large_batches: the same oracle on batches of 33..2050 rows (size classes around and beyond the block sizes "
    "128 and 1024 that chunked evaluation would use), coordinates from a seeded lattice."
)
ASSUMPTIONS = ["tolerance 1e-9*(1+sum|terms|) in x64, 1e-3*(1+scale) in the 32-bit variant", "explicit *Batch objects; generator-produced batches are covered by C08/C14"]
TOL = 1e-9


def _tol(x64_tol=TOL):
    """Comparison tolerance: the stated one in x64, 1e-3 (sums: 1e-5) in the library's default 32-bit precision."""
    import jax

    if jax.config.jax_enable_x64:
        return x64_tol
    return 1e-3 if x64_tol >= 1e-10 else 1e-5


def _evaluate(spec):
    loss, params, batch = build_single(spec)
    total, terms = loss.evaluate(params, batch)
    return float(total), {k: np.asarray(v, dtype=np.float64) for k, v in terms.items()}


def run_case(case):
    spec = case["spec"]
    labels = [spec["kind"]]
    want, detail = ref_terms(spec)
    total, terms = _evaluate(spec)
    # loss(params, batch) is the same thing as loss.evaluate(params, batch)
    loss_, params_, batch_ = build_single(spec)
    t2, terms2 = loss_(params_, batch_)
    if float(t2) != total or any(float(np.asarray(terms2[k])) != float(terms[k]) for k in terms):
        return fail("call-differs-from-evaluate", {"call": float(t2), "evaluate": total}, labels=labels)
    for k, v in terms.items():
        if v.shape != ():
            return fail(f"term-not-scalar:{k}", {"shape": list(v.shape)}, labels=labels)
    s = float(sum(float(v) for v in terms.values()))
    if not abs(total - s) <= _tol(1e-12) * (1 + abs(s)):
        return fail("total-not-sum-of-terms", {"total": total, "sum": s, "terms": {k: float(v) for k, v in terms.items()}},
                    labels=labels)
    conf = {"dyn_loss": spec.get("eq"), "initial_condition": spec.get("ic"), "boundary_loss": spec.get("boundary"),
            "norm_loss": spec.get("norm"), "observations": spec.get("obs")}
    for k, v in terms.items():
        if conf.get(k) is None and float(v) != 0.0:
            return fail(f"unconfigured-term-nonzero:{k}", {"value": float(v)}, labels=labels)
    R = detail["residuals"]
    scale = float(np.mean(np.sum(np.abs(np.atleast_1d(np.asarray(spec["w"]["dyn_loss"], dtype=float)) * R**2), axis=1)))
    got = float(terms["dyn_loss"])
    if not abs(got - want["dyn_loss"]) <= _tol() * (1 + scale):
        return fail("dyn-term-value", {"got": got, "want": want["dyn_loss"], "residuals": R.tolist(),
                                       "w": spec["w"]["dyn_loss"]}, labels=labels)
    n, c = R.shape
    # ---- metamorphic relations on the real code
    w = spec["w"]["dyn_loss"]
    lam = 2.5
    if isinstance(w, list):
        comp = case["comp"] % c
        spec2 = copy.deepcopy(spec)
        spec2["w"]["dyn_loss"][comp] = w[comp] * lam
        expect = got + (lam - 1) * w[comp] * float(np.mean(R[:, comp] ** 2))
        labels.append("w-vector")
    else:
        spec2 = copy.deepcopy(spec)
        spec2["w"]["dyn_loss"] = w * lam
        expect = lam * got
        labels.append("w-scalar")
    g2 = float(_evaluate(spec2)[1]["dyn_loss"])
    if not abs(g2 - expect) <= _tol() * (1 + lam * scale):
        return fail("dyn-term-not-linear-in-weight", {"got": g2, "want": expect}, labels=labels)
    if n >= 2 and spec.get("param_batch") is None and spec.get("obs") is None and spec["kind"] != "nonstatio":
        key = "t" if spec["kind"] == "ode" else "x"
        perm = case["perm"]
        # a permutation of 0..n-1 that is a pure function of the case (large batches: a multiplicative shuffle)
        order = sorted(range(n), key=(lambda i: perm[i]) if n <= len(perm) else (lambda i: ((i + 1 + perm[0]) * 2654435761) % 4294967291))
        spec3 = copy.deepcopy(spec)
        spec3["batch"][key] = [spec["batch"][key][i] for i in order]
        g3 = float(_evaluate(spec3)[1]["dyn_loss"])
        if not abs(g3 - got) <= _tol() * (1 + scale):
            return fail("dyn-term-not-permutation-invariant", {"got": g3, "want": got, "order": order}, labels=labels)
        labels.append("perm")
        if n % 2 == 0:
            halves = []
            for part in (range(0, n // 2), range(n // 2, n)):
                sp = copy.deepcopy(spec)
                sp["batch"][key] = [spec["batch"][key][i] for i in part]
                sp["ic"] = sp["boundary"] = sp["norm"] = None
                halves.append(float(_evaluate(sp)[1]["dyn_loss"]))
            if not abs(0.5 * (halves[0] + halves[1]) - got) <= _tol() * (1 + scale):
                return fail("dyn-term-not-average-of-halves", {"halves": halves, "whole": got}, labels=labels)
            labels.append("halves")
    rs, cs = R.sum(axis=1), (R**2).sum(axis=0)
    dist = lambda v, frac=1.0: len(v) < 2 or float(np.mean(np.diff(np.sort(np.asarray(v))) > 1e-6)) >= frac
    nt = n >= 2 and dist(rs, 1.0 if n <= 16 else 0.9) and dist(cs) and (not isinstance(w, list) or len(set(w)) > 1)
    if n > 16:
        labels.append("large-batch" + (":>1024" if n > 1024 else ":>128" if n > 128 else ""))
    labels.append(f"c{c}")
    return ok(nontrivial=nt, labels=labels, detail={"dyn": got, "n": n, "c": c})


def strat():
    from hypothesis import strategies as st

    @st.composite
    def s(draw):
        spec = draw(single_spec(want=("eq",), param_batch="maybe", nmax=6))
        return {"spec": spec, "comp": draw(st.integers(0, 2)), "perm": draw(st.permutations(list(range(9))))}

    return s()


def strat_big():
    from hypothesis import strategies as st

    @st.composite
    def s(draw):
        spec = draw(single_spec(want=("eq",), param_batch="maybe", big="always"))
        return {"spec": spec, "comp": draw(st.integers(0, 2)), "perm": [draw(st.integers(0, 10**6))]}

    return s()


def subchecks():
    return [
        SubCheck(name="assembly_and_dynamic_term", mode="given", strategy=strat, run_case=run_case,
                 counts={"quick": 200, "thorough": 4000}, shards={"quick": 8, "thorough": 16}, clear_every=60,
                 min_nontrivial_frac=0.3,
                 doc="total/terms consistency, exact zeros, dynamic term vs point-by-point numpy reference, metamorphic relations"),
        SubCheck(name="assembly_and_dynamic_term_f32", mode="given", strategy=strat, run_case=run_case, x64=False,
                 counts={"quick": 96, "thorough": 2000}, shards={"quick": 8, "thorough": 16}, clear_every=60,
                 min_nontrivial_frac=0.3,
                 doc="the same oracle in the library's default 32-bit precision (tolerance 1e-3 relative to the term's scale)"),
        SubCheck(name="large_batches", mode="given", strategy=strat_big, run_case=run_case,
                 counts={"quick": 32, "thorough": 600}, shards={"quick": 8, "thorough": 16}, clear_every=8,
                 min_nontrivial_frac=0.3,
                 doc="the same oracle on batches of 33..2050 rows (block-size boundaries of chunked evaluation)"),
    ]
