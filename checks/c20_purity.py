"""C20 - loss evaluation and batch drawing are pure and compilation-invariant."""
from __future__ import annotations

import numpy as np

from vpkit import SubCheck, fail, ok

PROPERTY = "C20"
LEVEL = "exploration"
RULE = (
    "cases = (a) loss specs of every kind (ODE / stationary / non-stationary single losses and 1..3-unknown system "
    "losses) with random subsets of terms, with and without parameter / observation parts; (b) generator "
    "configurations of every kind (ODE, stationary 1-D/2-D with border, space-time both product modes, observations, "
    "parameters from tables and ranges, parameters from 2..3 ranges declared in a drawn order with PRNG keys given as one key or as a dictionary "
    "written in another order, multi-network observations) advanced by k get_batch calls, in x64 and in the default 32-bit precision; "
    "the factor methods (inside_batch, border_batch, temporal_batch, ...) are checked for purity too. Oracle: deep snapshots (pytree structure + "
    "bytes of every leaf + key-by-key copies of every dict reachable through eq_params / batch dicts) of all arguments "
    "before and after the call are identical; a repeated call returns bit-identical results; eager vs "
    "jax.jit(lambda l,p,b: l.evaluate(p,b)) vs primal of value_and_grad agree within rtol 1e-9 (x64); get_batch eager "
    "vs jitted agree exactly. Non-trivial = the batch carries a parameter or observation part, or (generators) the "
    "checked call crosses a reshuffle."
)
ASSUMPTIONS = ["eager-vs-jit tolerance rtol 1e-9 (x64): XLA may reassociate sums", "get_batch eager vs jit compared exactly"]


def snapshot(tree):
    """(structure string, list of (dtype, shape, bytes)) + copies of dicts."""
    import jax

    leaves, treedef = jax.tree_util.tree_flatten(tree)
    out = []
    for l in leaves:
        try:
            if hasattr(l, "dtype") and jax.dtypes.issubdtype(l.dtype, jax.dtypes.prng_key):
                l = jax.random.key_data(l)
        except Exception:
            pass
        a = np.asarray(l)
        out.append((str(a.dtype), a.shape, a.tobytes()))
    return str(treedef), out


def dict_view(d):
    if d is None:
        return None
    return {k: (dict_view(v) if isinstance(v, dict) else (None if v is None else np.asarray(v).tobytes())) for k, v in d.items()}


def _cmp(a, b):
    return a[0] == b[0] and len(a[1]) == len(b[1]) and all(x == y for x, y in zip(a[1], b[1]))


def _cmp_values(a, b):
    """same structure, shapes and VALUES (python scalars that went through jit come back as 32-bit arrays: the dtype of
    such leaves is not compared)."""
    if a[0] != b[0] or len(a[1]) != len(b[1]):
        return False
    for (da, sa, ba), (db, sb, bb) in zip(a[1], b[1]):
        if sa != sb:
            return False
        if not np.array_equal(np.frombuffer(ba, dtype=da).astype(np.float64), np.frombuffer(bb, dtype=db).astype(np.float64)):
            return False
    return True


def _vals(res):
    total, terms = res
    return float(np.asarray(total).reshape(-1)[0]), {k: float(np.asarray(v).reshape(-1)[0]) for k, v in terms.items()}


def run_loss(case):
    import jax

    spec = case["spec"]
    if case["family"] == "single":
        from vpkit.problems import build_single

        loss, params, batch = build_single(spec)
    else:
        from vpkit.systems import build_system

        loss, params, batch = build_system(spec)
    labels = [case["family"], spec["kind"]]
    has_part = batch.param_batch_dict is not None or batch.obs_batch_dict is not None
    if batch.param_batch_dict is not None:
        labels.append("param-part")
    if batch.obs_batch_dict is not None:
        labels.append("obs-part")
    snaps = lambda: (snapshot(params), snapshot(batch), snapshot(loss), dict_view(params.eq_params),
                     dict_view(batch.param_batch_dict), dict_view(batch.obs_batch_dict))
    s0 = snaps()
    r1 = _vals(loss.evaluate(params, batch))
    s1 = snaps()
    names = ["params", "batch", "loss", "params.eq_params dict", "batch.param_batch_dict", "batch.obs_batch_dict"]
    for n, a, b in zip(names, s0, s1):
        same = _cmp(a, b) if isinstance(a, tuple) else a == b
        if not same:
            return fail(f"evaluate-modified-argument:{n.split('.')[0].split(' ')[0]}", {"argument": n}, labels=labels)
    order = case["order"]
    results = {"eager": r1}
    jfun = jax.jit(lambda l, p, b: l.evaluate(p, b))
    for step in order:
        if step == "eager":
            r = _vals(loss.evaluate(params, batch))
            if r != r1:
                return fail("repeated-evaluation-differs", {"first": r1[0], "again": r[0]}, labels=labels)
        elif step == "jit":
            r = _vals(jfun(loss, params, batch))
            results["jit"] = r
        elif step == "vag":
            import jax.numpy as jnp

            def prim(p):
                tot, terms = loss.evaluate(p, batch)
                return jnp.sum(tot), terms  # a length-one weight array gives a (1,) total

            (tot, terms), _g = jax.value_and_grad(prim, has_aux=True)(params)
            r = _vals((tot, terms))
            results["vag"] = r
        s2 = snaps()
        for n, a, b in zip(names, s0, s2):
            same = _cmp(a, b) if isinstance(a, tuple) else a == b
            if not same:
                return fail(f"evaluate-modified-argument:{n.split('.')[0].split(' ')[0]}", {"argument": n, "after": step}, labels=labels)
    for mode in ("jit", "vag"):
        if mode in results:
            r = results[mode]
            if not abs(r[0] - r1[0]) <= 1e-9 * (1 + abs(r1[0])):
                return fail(f"eager-vs-{mode}-total", {"eager": r1[0], mode: r[0]}, labels=labels)
            for k in r1[1]:
                if not abs(r[1][k] - r1[1][k]) <= 1e-9 * (1 + abs(r1[1][k])):
                    return fail(f"eager-vs-{mode}-term", {"term": k, "eager": r1[1][k], mode: r[1][k]}, labels=labels)
    return ok(nontrivial=has_part, labels=labels + sorted(set(order)))


def strat_loss():
    from hypothesis import strategies as st

    from checks.c13_system_losses import strat as sys_strat
    from vpkit.strats import single_spec

    @st.composite
    def s(draw):
        fam = draw(st.sampled_from(["single", "single", "system"]))
        if fam == "single":
            spec = draw(single_spec(want=("eq",), maybe=("ic", "boundary", "norm", "obs"), param_batch="maybe",
                                    obs_params=True, hetero=True, nmax=4))
        else:
            spec = draw(sys_strat(force_pb=draw(st.booleans())))["spec"]
        order = draw(st.lists(st.sampled_from(["eager", "jit", "vag"]), min_size=2, max_size=4))
        if "jit" not in order:
            order.append("jit")
        return {"family": fam, "spec": spec, "order": order}

    return s()


# ---------------------------------------------------------------- generators
def build_generator(cfg):
    import jax
    import jax.numpy as jnp
    import jinns

    k = jax.random.PRNGKey(cfg["key"])
    kind = cfg["kind"]
    n, b = cfg["n"], cfg["b"]
    if kind == "ode":
        return jinns.data.DataGeneratorODE(k, n, 0.0, 1.5, b, method=cfg["method"])
    if kind == "statio":
        d = cfg["dim"]
        return jinns.data.CubicMeshPDEStatio(key=k, n=n, nb=4 * cfg["fn"] if d == 2 else 2, omega_batch_size=b,
                                             omega_border_batch_size=(cfg["bb"] if d == 2 else 2) if cfg["border"] else None,
                                             dim=d, min_pts=(-1.0,) * d, max_pts=(2.0,) * d, method="uniform")
    if kind == "nonstatio":
        d = cfg["dim"]
        cart = cfg["cartesian"]
        bt = cfg["bt"] if cart else b
        bb = (cfg["bb"] if cart else b) if d == 2 else 2
        fn = max(cfg["fn"], bb)
        return jinns.data.CubicMeshPDENonStatio(key=k, n=n, nb=4 * fn if d == 2 else 2, nt=cfg["nt"], omega_batch_size=b,
                                                omega_border_batch_size=bb if cfg["border"] else None,
                                                temporal_batch_size=min(bt, cfg["nt"]), dim=d, min_pts=(-1.0,) * d,
                                                max_pts=(2.0,) * d, tmin=0.0, tmax=1.0, cartesian_product=cart)
    if kind == "obs":
        return jinns.data.DataGeneratorObservations(k, b, jnp.arange(n, dtype=float)[:, None] * 0.5,
                                                    jnp.arange(n, dtype=float)[:, None] * 3.0 + 1.0,
                                                    {"nu": jnp.arange(n, dtype=float) + 10.0})
    if kind == "param":
        return jinns.data.DataGeneratorParameter(k, n, b, param_ranges={"nu": (0.5, 2.0)},
                                                 user_data={"theta": jnp.arange(n, dtype=float) * 0.5 + 10.0},
                                                 method=cfg["method"])
    if kind == "param_ranges":
        # ranges only (no array in a static field, so a stand-alone jit is possible); >= 2 parameters declared in a drawn
        # order, PRNG keys given as one key or as a dictionary written in another drawn order
        RANGES = {"nu": (0.5, 1.0), "theta": (2.0, 3.5), "alpha": (-4.0, -3.0)}
        names = cfg["pnames"]
        keys = k
        if cfg["pkeys"] is not None:
            ks = jax.random.split(k, len(names))
            keys = {nm: ks[i] for i, nm in enumerate(cfg["pkeys"])}
        return jinns.data.DataGeneratorParameter(keys, n, b, param_ranges={nm: RANGES[nm] for nm in names}, method=cfg["method"])
    if kind == "multi":
        return jinns.data.DataGeneratorObservationsMultiPINNs(
            b, {"u": jnp.arange(n, dtype=float)[:, None], "v": None, "w": jnp.arange(n, dtype=float)[:, None] + 0.25},
            {"u": jnp.arange(n, dtype=float)[:, None] * 2.0, "v": None, "w": jnp.arange(n, dtype=float)[:, None] * 3.0},
            key=k)
    raise ValueError(kind)


def run_generator(case):
    import jax

    cfg = case["cfg"]
    g = build_generator(cfg)
    labels = [cfg["kind"]]
    if cfg.get("pkeys") is not None:
        labels.append("keys-dict" + ("-other-order" if list(cfg["pkeys"]) != list(cfg["pnames"]) else ""))
    for _ in range(cfg["advance"]):
        g, _b = g.get_batch()
    s0 = snapshot(g)
    g1, b1 = g.get_batch()
    if not _cmp(s0, snapshot(g)):
        return fail("get_batch-modified-the-generator", {"kind": cfg["kind"]}, labels=labels)
    g2, b2 = g.get_batch()
    if not (_cmp(snapshot(g1), snapshot(g2)) and _cmp(snapshot(b1), snapshot(b2))):
        return fail("repeated-get_batch-differs", {"kind": cfg["kind"]}, labels=labels)
    if cfg["kind"] in ("obs", "param", "multi"):
        # these loaders keep user tables as static (metadata) fields; jax compares metadata with == in its caches and
        # refuses arrays there, so a stand-alone jit of their get_batch is not reliable in a long-lived process. Their
        # jitted use is exercised through jinns.solve (C07, programs with observation / parameter generators).
        labels.append("jit-skipped(static tables)")
    else:
        gj, bj = jax.jit(lambda gg: gg.get_batch())(g)
        if not _cmp_values(snapshot(b1), snapshot(bj)):
            return fail("eager-vs-jit-batch-differs", {"kind": cfg["kind"]}, labels=labels)
        if not _cmp_values(snapshot(g1), snapshot(gj)):
            return fail("eager-vs-jit-generator-state-differs", {"kind": cfg["kind"]}, labels=labels)
    if not _cmp(s0, snapshot(g)):
        return fail("get_batch-modified-the-generator", {"kind": cfg["kind"], "after": "jit"}, labels=labels)
    # the factor methods of the collocation generators are pure as well
    for meth in ("inside_batch", "border_batch", "temporal_batch", "param_batch", "obs_batch"):
        if hasattr(g, meth):
            r1 = getattr(g, meth)()
            if not _cmp(s0, snapshot(g)):
                return fail("get_batch-modified-the-generator", {"kind": cfg["kind"], "method": meth}, labels=labels)
            r2 = getattr(g, meth)()
            if not _cmp(snapshot(r1), snapshot(r2)):
                return fail("repeated-get_batch-differs", {"kind": cfg["kind"], "method": meth}, labels=labels)
    # does the checked call cross a reshuffle?  (key or store order changed)
    crossed = not _cmp(snapshot(_stores(g)), snapshot(_stores(g1)))
    return ok(nontrivial=crossed, labels=labels + (["reshuffle"] if crossed else ["no-reshuffle"]))


def _stores(g):
    out = []
    for name in ("key", "keys", "times", "omega", "omega_border", "indices", "param_n_samples", "data_gen_obs"):
        if hasattr(g, name):
            out.append(getattr(g, name))
    return out


def strat_generator():
    from hypothesis import strategies as st

    @st.composite
    def s(draw):
        kind = draw(st.sampled_from(["ode", "statio", "nonstatio", "obs", "param", "param_ranges", "multi"]))
        n = draw(st.integers(1, 9))
        b = draw(st.integers(1, n))
        per_epoch = -(-n // b)
        adv = draw(st.sampled_from([0, per_epoch - 1, per_epoch, 2 * per_epoch, draw(st.integers(0, 12))]))
        cfg = {"kind": kind, "n": n, "b": b, "key": draw(st.integers(0, 2**31 - 1)), "advance": max(0, adv),
               "method": draw(st.sampled_from(["uniform", "grid"])), "dim": draw(st.sampled_from([1, 2])),
               "border": draw(st.booleans()), "fn": draw(st.integers(1, 8)), "cartesian": draw(st.booleans()),
               "nt": draw(st.integers(1, 6))}
        cfg["bb"] = draw(st.integers(1, cfg["fn"]))
        cfg["bt"] = draw(st.integers(1, cfg["nt"]))
        if kind == "nonstatio" and not cfg["cartesian"]:
            cfg["nt"] = max(cfg["nt"], b)
        if kind == "param_ranges":
            cfg["pnames"] = draw(st.permutations(["nu", "theta", "alpha"]))[: draw(st.integers(2, 3))]
            cfg["pkeys"] = draw(st.one_of(st.none(), st.permutations(cfg["pnames"])))
        return {"cfg": cfg}

    return s()


def subchecks():
    return [
        SubCheck(name="loss_evaluate_purity", mode="given", strategy=strat_loss, run_case=run_loss,
                 counts={"quick": 64, "thorough": 2000}, shards={"quick": 8, "thorough": 16}, clear_every=10,
                 min_nontrivial_frac=0.3,
                 doc="evaluate() leaves params/batch/loss untouched, is repeatable, and agrees eagerly / under jit / as primal of value_and_grad"),
        SubCheck(name="get_batch_purity", mode="given", strategy=strat_generator, run_case=run_generator,
                 counts={"quick": 96, "thorough": 2000}, shards={"quick": 4, "thorough": 16}, clear_every=20,
                 min_nontrivial_frac=0.25,
                 doc="get_batch() leaves the generator untouched, is repeatable, and agrees exactly eagerly / under jit (x64)"),
        SubCheck(name="get_batch_purity_f32", mode="given", strategy=strat_generator, run_case=run_generator, x64=False,
                 counts={"quick": 96, "thorough": 2000}, shards={"quick": 4, "thorough": 16}, clear_every=20,
                 min_nontrivial_frac=0.25,
                 doc="same in the library's default precision (32-bit counters and indices under jit)"),
    ]
