"""C04 - boundary term: Dirichlet / outward-normal Neumann per facet."""
from __future__ import annotations

import copy

import numpy as np

from vpkit import SubCheck, fail, ok
from vpkit.problems import FACETS, build_single, ref_terms
from vpkit.strats import single_spec

PROPERTY = "C04"
LEVEL = "exploration"
RULE = (
    "cases = loss specs with a boundary term: stationary / non-stationary, dim 1 and 2, analytic-field network or real one-hidden-layer MLP with 1..3 "
    "outputs (closed-form gradient), non-zero analytic f returning (), (1,) or (k,), condition global "
    "('dirichlet','neumann','von neumann') or per facet with None facets, component selection None/int/slice, scalar "
    "or length-one weight, 1..3 time points, 1..4 border points per facet on random (negative, non-unit) boxes, "
    "hand-built border arrays and border batches drawn from the real CubicMesh generators; optional per-sample "
    "parameter batch. Oracle: sum_facets mean_points w*mismatch^2 with the outward normal derived from geometry "
    "(facet k pins coordinate k//2 to min (even k) / max (odd k)). Metamorphic: scalar vs length-one f; 1 vs k time "
    "points for time-independent u and f. Non-trivial = f != 0 (by construction), the configured per-facet "
    "contributions pairwise distinct (>1e-6) and non-zero. Sub-check large_batches: the same oracle with 5..2050 border "
    "points per facet and 33..2050 interior rows (block-size boundaries of chunked evaluation; seeded lattice coordinates)."
)
ASSUMPTIONS = ["tolerance 1e-9*(1+scale) in x64", "a per-component boundary weight is not generated (no defined meaning)"]
TOL = 1e-9


def _bterm(spec):
    loss, params, batch = build_single(spec)
    _, terms = loss.evaluate(params, batch)
    return float(terms["boundary_loss"])


def _flip_ret(f):
    f = copy.deepcopy(f)
    if f is None:
        return f
    if f["ret"] == "scalar":
        f["ret"] = "one"
    elif f["ret"] == "one":
        f["ret"] = "scalar"
    return f


def check_boundary(spec, labels):
    want, detail = ref_terms(spec)
    got = _bterm(spec)
    facets = [v for v in detail["facets"] if v is not None]
    scale = sum(abs(v) for v in facets)
    if not abs(got - want["boundary_loss"]) <= TOL * (1 + scale):
        bd = spec["boundary"]
        conds = bd["cond"] if isinstance(bd["cond"], dict) else {"all": bd["cond"]}
        kinds = sorted({("dirichlet" if c == "dirichlet" else "neumann") for c in conds.values() if c})
        return fail(f"boundary-value:{'+'.join(kinds)}",
                    {"got": got, "want": want["boundary_loss"], "per_facet_want": detail["facets"], "kind": spec["kind"],
                     "dim": spec["dim"]}, labels=labels), None
    return None, (got, facets)


def run_case(case):
    spec = case["spec"]
    bd = spec["boundary"]
    labels = [spec["kind"], f"d{spec['dim']}", "per-facet" if isinstance(bd["cond"], dict) else "global"]
    if spec.get("param_batch"):
        labels.append("param-batch")
    v, res = check_boundary(spec, labels)
    if v is not None:
        return v
    got, facets = res
    # (c) scalar vs length-one f
    spec2 = copy.deepcopy(spec)
    if isinstance(bd["cond"], dict):
        spec2["boundary"]["f"] = {k: _flip_ret(f) for k, f in bd["f"].items()}
        changed = any(f is not None and f["ret"] in ("scalar", "one") for f in bd["f"].values())
    else:
        spec2["boundary"]["f"] = _flip_ret(bd["f"])
        changed = bd["f"]["ret"] in ("scalar", "one")
    if changed:
        g2 = _bterm(spec2)
        if not abs(g2 - got) <= TOL * (1 + abs(got)):
            return fail("boundary-depends-on-f-return-shape",
                        {"with_given_shape": got, "with_flipped_shape": g2, "kind": spec["kind"], "dim": spec["dim"]},
                        labels=labels)
        labels.append("ret-flip")
    nz = all(abs(f) > 1e-9 for f in facets)
    dist = all(abs(a - b) > 1e-6 for i, a in enumerate(facets) for b in facets[i + 1:])
    return ok(nontrivial=nz and dist, labels=labels, detail={"boundary": got, "per_facet": facets})


def strat():
    from hypothesis import strategies as st

    @st.composite
    def s(draw):
        spec = draw(single_spec(kinds=("statio", "nonstatio"), want=("boundary",), maybe=(), param_batch="maybe"))
        return {"spec": spec}

    return s().filter(lambda c: c["spec"]["boundary"] is not None)


def strat_big():
    from hypothesis import strategies as st

    @st.composite
    def s(draw):
        spec = draw(single_spec(kinds=("statio", "nonstatio"), want=("boundary",), maybe=(), param_batch="maybe", big="always"))
        return {"spec": spec}

    return s().filter(lambda c: c["spec"]["boundary"] is not None)


# ---- (d) time-independence ------------------------------------------------------------------
def run_time_indep(case):
    spec = case["spec"]
    labels = ["time-indep", f"d{spec['dim']}"]
    v, res = check_boundary(spec, labels)
    if v is not None:
        return v
    got, facets = res
    spec1 = copy.deepcopy(spec)
    spec1["batch"]["t"] = spec["batch"]["t"][:1]
    if not spec["batch"].get("cartesian", True) and spec["dim"] == 2:
        spec1["batch"]["border"] = [b[:1] for b in spec["batch"]["border"]]
        spec1["batch"]["x"] = spec["batch"]["x"][:1]
        # pairing mode: one row only -> compare against the mean over the rows one by one
        vals = []
        for i in range(len(spec["batch"]["t"])):
            sp = copy.deepcopy(spec)
            sp["batch"]["t"] = [spec["batch"]["t"][i]]
            sp["batch"]["x"] = [spec["batch"]["x"][i]]
            sp["batch"]["border"] = [[b[i]] for b in spec["batch"]["border"]]
            vals.append(_bterm(sp))
        g1 = float(np.mean(vals))
    else:
        g1 = _bterm(spec1)
    if not abs(g1 - got) <= TOL * (1 + abs(got)):
        return fail("boundary-depends-on-number-of-time-points",
                    {"k_time_points": got, "one_time_point": g1, "nt": len(spec["batch"]["t"])}, labels=labels)
    return ok(nontrivial=len(spec["batch"]["t"]) >= 2 and all(abs(f) > 1e-9 for f in facets), labels=labels,
              detail={"boundary": got})


def _strip_time(spec):
    spec["net"].pop("mlp", None)  # a real MLP depends on t: this sub-check needs a time-independent network
    f = spec["net"]["field"]
    for k in range(f["m"]):
        for term in f["sin"][k]:
            term[2][0] = 0.0
        if f.get("quad"):
            for i in range(f["din"]):
                f["quad"][k][0][i] = 0.0
                f["quad"][k][i][0] = 0.0
    f["gauss"] = None
    bd = spec["boundary"]
    fs = bd["f"].values() if isinstance(bd["cond"], dict) else [bd["f"]]
    for ff in fs:
        if ff is not None:
            ff["c"] = 0.0
    return spec


def strat_time_indep():
    from hypothesis import strategies as st

    @st.composite
    def s(draw):
        spec = draw(single_spec(kinds=("nonstatio",), want=("boundary",), maybe=()))
        return {"spec": _strip_time(spec)}

    return s()


# ---- border batches from the real generators ---------------------------------------------------
def run_generator(case):
    import jax
    import jinns

    spec = copy.deepcopy(case["spec"])
    d, kind = spec["dim"], spec["kind"]
    mn, mx = tuple(spec["box"]["min"]), tuple(spec["box"]["max"])
    key = jax.random.PRNGKey(case["key"])
    nbf = case["nb_facet"]
    if kind == "statio":
        g = jinns.data.CubicMeshPDEStatio(key=key, n=4, nb=4 * nbf if d == 2 else 2, omega_batch_size=2,
                                          omega_border_batch_size=case["bb"] if d == 2 else 2, dim=d, min_pts=mn, max_pts=mx)
        for _ in range(case["draws"]):
            g, batch = g.get_batch()
        border = np.asarray(batch.border_batch, dtype=np.float64)
        spec["batch"]["x"] = np.asarray(batch.inside_batch, dtype=np.float64).tolist()
    else:
        nt = len(spec["batch"]["t"])
        g = jinns.data.CubicMeshPDENonStatio(key=key, n=4, nb=4 * nbf if d == 2 else 2, nt=max(nt, 3), omega_batch_size=2,
                                             omega_border_batch_size=case["bb"] if d == 2 else 2, temporal_batch_size=nt,
                                             dim=d, min_pts=mn, max_pts=mx, tmin=0.0, tmax=1.0)
        for _ in range(case["draws"]):
            g, batch = g.get_batch()
        tb = np.asarray(batch.times_x_border_batch, dtype=np.float64)  # (nt*bb, 1+d, F)
        nb_ = tb.shape[0] // nt
        border = tb[:nb_, 1:, :]
        spec["batch"]["t"] = tb[::nb_, 0, 0].tolist()
        spec["batch"]["x"] = np.asarray(batch.times_x_inside_batch, dtype=np.float64)[:2, 1:].tolist()
        spec["batch"]["cartesian"] = True
    spec["batch"]["border_array"] = border.tolist()
    labels = ["generator", kind, f"d{d}"]
    # geometry of the property statement: facet k pins coordinate k//2 to min (even) / max (odd)
    for f in range(border.shape[-1]):
        axis, bound = f // 2, (mn if f % 2 == 0 else mx)[f // 2]
        if not np.all(border[:, axis, f] == bound):
            return fail("generator-facet-order", {"facet": f, "expected_pinned_axis": axis, "bound": bound,
                                                  "points": border[:, :, f].tolist()}, labels=labels)
    v, res = check_boundary(spec, labels)
    if v is not None:
        return v
    got, facets = res
    dist = all(abs(a - b) > 1e-6 for i, a in enumerate(facets) for b in facets[i + 1:])
    return ok(nontrivial=dist and all(abs(f) > 1e-9 for f in facets), labels=labels, detail={"boundary": got})


def strat_generator():
    from hypothesis import strategies as st

    @st.composite
    def s(draw):
        spec = draw(single_spec(kinds=("statio", "nonstatio"), want=("boundary",), maybe=()))
        spec["batch"].pop("border", None)
        nbf = draw(st.integers(1, 4))
        return {"spec": spec, "key": draw(st.integers(0, 2**31 - 1)), "nb_facet": nbf, "bb": draw(st.integers(1, nbf)),
                "draws": draw(st.integers(1, 3))}

    return s()


def subchecks():
    return [
        SubCheck(name="boundary_vs_reference", mode="given", strategy=strat, run_case=run_case,
                 counts={"quick": 200, "thorough": 5000}, shards={"quick": 8, "thorough": 16}, clear_every=60,
                 doc="boundary term vs per-facet numpy reference (outward normal from geometry) + scalar/(1,) f invariance"),
        SubCheck(name="large_batches", mode="given", strategy=strat_big, run_case=run_case,
                 counts={"quick": 24, "thorough": 400}, shards={"quick": 8, "thorough": 16}, clear_every=6,
                 doc="the same oracle with 5..2050 border points per facet and 33..2050 interior rows"),
        SubCheck(name="time_point_invariance", mode="given", strategy=strat_time_indep, run_case=run_time_indep,
                 counts={"quick": 40, "thorough": 800}, shards={"quick": 2, "thorough": 16}, clear_every=60,
                 doc="time-independent u and f: same value for 1 and k time points"),
        SubCheck(name="generator_border_batches", mode="given", strategy=strat_generator, run_case=run_generator,
                 counts={"quick": 40, "thorough": 800}, shards={"quick": 2, "thorough": 16}, clear_every=60,
                 doc="border batches drawn from CubicMeshPDEStatio/NonStatio: facet order from geometry + term value"),
    ]
