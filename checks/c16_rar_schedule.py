"""C16 - residual-adaptive refinement follows its schedule and never exceeds capacity."""
from __future__ import annotations

import numpy as np

from vpkit import SubCheck, fail, ok
from vpkit.rar import drive, model_schedule, rar_cfg_strategy

PROPERTY = "C16"
LEVEL = "exploration"
RULE = (
    "cases = RAR configurations: generator kind (ODE, stationary, space-time with cartesian batches; dim 1 and 2), "
    "start_iter 0..6, update_every 1..4, n_start / nt_start 1..8 (equal or different), store sizes up to start+14 so "
    "that capacity is sometimes exhausted inside the run, candidate sizes >= selected sizes 1..4, up to 25 iterations; "
    "analytic network and single-component equation, or (ODE / stationary) a system loss with 1..2 unknowns and 1..2 equations. The generator is driven as jinns.solve drives it (init_rar, then "
    "per iteration get_batch + trigger_rar) and observed after every iteration; a second sub-check runs jinns.solve "
    "end to end and inspects the returned generator. Oracle: python model - a step happens at iteration i iff "
    "i >= start and (i-start) % update_every == 0 and every refined axis has room for a full set; after J steps "
    "count_nonzero(p) == n_start + J*selected separately for time and space, rar_iter_nb == J, never above the store "
    "size. Non-trivial = at least 2 steps happen and (capacity is reached inside the run or nt_start != n_start or "
    "update_every > 1)."
)
ASSUMPTIONS = ["for space-time generators a step needs room on both axes (as the code does); 'independently' refers to the counts",
               "RAR with cartesian_product=False is not generated (not supported by the library)"]


def _counts(snap):
    out = {}
    for name, (store, p) in snap.axes().items():
        out[name] = int(np.count_nonzero(p))
    return out


def check_iter(cfg, model):
    sel = {"times": cfg.get("sel_t"), "omega": cfg.get("sel_x")}
    start = {"times": cfg.get("nt_start"), "omega": cfg.get("n_start")}
    size = {"times": cfg.get("nt"), "omega": cfg.get("n")}

    def on_iter(rec):
        i = rec["i"]
        step, J = model[i]
        post = rec["post"]
        if post.J != J:
            return ("rar-step-schedule", {"iteration": i, "steps_done": post.J, "model_steps": J, "start": cfg["start"],
                                          "every": cfg["every"]})
        for name, c in _counts(post).items():
            want = start[name] + J * sel[name]
            if c > size[name]:
                return ("active-count-exceeds-store", {"axis": name, "count": c, "store": size[name]})
            if c != want:
                return ("active-count", {"iteration": i, "axis": name, "count": c, "want": want, "J": J,
                                         "n_start": start[name], "selected": sel[name]})
        return None

    return on_iter


def run_case(case):
    cfg = case["cfg"]
    labels = [cfg["kind"], f"d{cfg['dim']}"] + (["system-loss"] if cfg.get("system") else [])
    model = model_schedule(cfg, cfg["iters"])
    g, records, r = drive(cfg, on_iter=check_iter(cfg, model))
    if r is not None:
        return fail(r[0], dict(r[1], kind=cfg["kind"], dim=cfg["dim"]), labels=labels)
    J = model[-1][1]
    due_total = sum(1 for i in range(cfg["iters"]) if i >= cfg["start"] and (i - cfg["start"]) % cfg["every"] == 0)
    capped = J < due_total
    diff = cfg["kind"] == "nonstatio" and cfg["nt_start"] != cfg["n_start"]
    if capped:
        labels.append("capacity-reached")
    if diff:
        labels.append("nt_start!=n_start")
    return ok(nontrivial=J >= 2 and (capped or diff or cfg["every"] > 1), labels=labels,
              detail={"steps": J, "due": due_total})


def strat():
    from hypothesis import strategies as st

    return rar_cfg_strategy().map(lambda c: {"cfg": c})


_ZERO = []


def _zero_lr_sgd():
    import optax

    if not _ZERO:
        _ZERO.append(optax.sgd(0.0))
    return _ZERO[0]


def run_solve(case):
    """End to end through jinns.solve: final generator state vs the model."""
    import jinns
    import optax

    from vpkit.rar import make_generator, make_loss

    cfg = case["cfg"]
    labels = [cfg["kind"], "solve"]
    loss, params, _ = make_loss(cfg)
    g = make_generator(cfg)
    # zero learning rate: the schedule does not depend on training, and a diverging run would stop solve() early
    out = jinns.solve(n_iter=cfg["iters"], init_params=params, data=g, loss=loss, optimizer=_zero_lr_sgd(), verbose=False)
    gd = out[3]
    losses = np.asarray(out[1])
    if not np.all(np.isfinite(losses)):
        return ok(nontrivial=False, labels=labels + ["non-finite-loss-skipped"])
    model = model_schedule(cfg, cfg["iters"])
    J = model[-1][1]
    if int(gd.rar_iter_nb) != J:
        return fail("rar-step-schedule", {"via": "solve", "steps_done": int(gd.rar_iter_nb), "model_steps": J,
                                          "start": cfg["start"], "every": cfg["every"], "n_iter": cfg["iters"]}, labels=labels)
    for name, p, st_, sel, size in (("times", getattr(gd, "p_times", None), cfg.get("nt_start"), cfg.get("sel_t"), cfg.get("nt")),
                                    ("omega", getattr(gd, "p_omega", None), cfg.get("n_start"), cfg.get("sel_x"), cfg.get("n"))):
        if p is None or sel is None:
            continue
        c = int(np.count_nonzero(np.asarray(p)))
        if c != st_ + J * sel or c > size:
            return fail("active-count", {"via": "solve", "axis": name, "count": c, "want": st_ + J * sel}, labels=labels)
    return ok(nontrivial=J >= 2, labels=labels, detail={"steps": J})


def subchecks():
    return [
        SubCheck(name="schedule_and_capacity", mode="given", strategy=strat, run_case=run_case,
                 counts={"quick": 96, "thorough": 4800}, shards={"quick": 8, "thorough": 16}, clear_every=5,
                 min_nontrivial_frac=0.3, doc="per-iteration schedule / counts / capacity vs python model"),
        SubCheck(name="schedule_through_solve", mode="given", strategy=strat, run_case=run_solve,
                 counts={"quick": 24, "thorough": 960}, shards={"quick": 6, "thorough": 16}, clear_every=3,
                 min_nontrivial_frac=0.3, doc="final generator state returned by jinns.solve vs python model"),
    ]
