"""C10 - network wrappers honour their calling and output conventions."""
from __future__ import annotations

import math

import numpy as np

from vpkit import SubCheck, fail, ok

PROPERTY = "C10"
LEVEL = "exploration"
RULE = (
    "cases = (a) PINNs from create_PINN: 1..3 Linear layers of width 1..6 with tanh/sin/softplus/identity, 1..3 outputs, "
    "eq_type in {ODE, statio, nonstatio}, dim_x 1..3, input transform in {none, affine, periodic embedding using an "
    "equation parameter}, output transform in {none, hard boundary factor, scaling by an equation parameter}, "
    "shared_pinn_outputs given as slices or (possibly negative) ints, scalar vs (1,) time for ODE, params given as Params or as the bare "
    "network parameters when no transform needs eq_params; (b) SPINNs: d 1..3, r 1..4, m 1..3 outputs, batch 1..3 per "
    "axis, statio / nonstatio; (c) HYPERPINNs with 1..3 hyper-parameters of shapes (), (1,), (2,), default or custom "
    "hyper architecture, input transform none / affine / periodic, optional shared outputs; the parameters handed to every wrapper are, in 4 cases out of 5, a perturbation of the ones it "
    "was created with (the wrapper must evaluate the parameters it is GIVEN). Oracle: independent numpy forward pass from the weight/bias leaves (W x + b, activation table), "
    "then output_transform(inputs, net(input_transform(inputs, params)), params)[output_slice] with a trailing "
    "component axis; shared-output networks = slices of one common output; SPINN = sum_r prod_d f_d(x_d) on the tensor "
    "grid, slot m using embedding block m; HYPERPINN = hyper forward pass on the concatenated designated parameters, "
    "output split by cumulative sizes of the inner network's parameter leaves in leaf order, reshaped, inner forward. "
    "Non-trivial = (a) >=2 outputs or a non-identity transform; (b) m>=2 and r>=2; (c) >=2 hyper-parameters; and "
    "outputs pairwise distinct so that slot permutations are visible."
)
ASSUMPTIONS = ["tolerance 1e-10*(1+|value|) in x64", "scalar time is generated for ODE wrappers only (the documented case)"]
TOL = 1e-10

ACTS = {"tanh": np.tanh, "sin": np.sin, "softplus": lambda x: np.log1p(np.exp(-np.abs(x))) + np.maximum(x, 0), "identity": lambda x: x}


def _jact(name):
    import jax
    import jax.numpy as jnp

    return {"tanh": jax.nn.tanh, "sin": jnp.sin, "softplus": jax.nn.softplus, "identity": (lambda x: x)}[name]


# transforms menu (static callables, created once)
def in_none(i, p):
    return i


def in_affine(i, p):
    return 2.0 * i + 1.0


def in_periodic(i, p):
    import jax.numpy as jnp

    th = jnp.sum(p.eq_params["theta"])
    return jnp.concatenate([jnp.sin(th * i[0:1]), jnp.cos(th * i[0:1]), i[1:]])


def out_none(i, o, p):
    return o


def out_hard(i, o, p):
    return i[0] * (1.0 - i[0]) * o + 0.25


def out_scale(i, o, p):
    import jax.numpy as jnp

    return o * jnp.sum(p.eq_params["theta"]) + p.eq_params["beta"][0]


IN_T = {"none": in_none, "affine": in_affine, "periodic": in_periodic}
OUT_T = {"none": out_none, "hard": out_hard, "scale": out_scale}


def np_in(name, i, eqp):
    if name == "none":
        return i
    if name == "affine":
        return 2.0 * i + 1.0
    th = float(np.sum(eqp["theta"]))
    return np.concatenate([np.sin(th * i[0:1]), np.cos(th * i[0:1]), i[1:]])


def np_out(name, i, o, eqp):
    if name == "none":
        return o
    if name == "hard":
        return i[0] * (1.0 - i[0]) * o + 0.25
    return o * float(np.sum(eqp["theta"])) + float(np.asarray(eqp["beta"])[0])


def np_mlp(layers_params, acts, x):
    """layers_params: list of (W, b) ; acts: list of activation names between / after the linear layers."""
    h = np.asarray(x, dtype=np.float64)
    for (W, b), a in zip(layers_params, acts):
        h = W @ h + b
        h = ACTS[a](h)
    return h


def _linear_leaves(mlp_params):
    """(W, b) of every Linear layer of a jinns _MLP parameter pytree, in order."""
    out = []
    for layer in mlp_params.layers:
        if hasattr(layer, "weight") and layer.weight is not None:
            out.append((np.asarray(layer.weight, dtype=np.float64), np.asarray(layer.bias, dtype=np.float64)))
    return out


def _eqx_list(din, widths, acts, dout):
    import equinox as eqx

    lst = []
    sizes = [din] + widths + [dout]
    for j in range(len(sizes) - 1):
        lst.append((eqx.nn.Linear, sizes[j], sizes[j + 1]))
        if acts[j] != "identity" or j < len(sizes) - 2:
            lst.append((_jact(acts[j]),))
    return tuple(lst)


def _perturb(tree, pert):
    """The parameters handed to a wrapper must be the ones it evaluates, not the ones it was created with: every
    floating leaf a becomes a + pert * 0.1 * sin(1 + index) (pert = 0 keeps the initial parameters)."""
    import equinox as eqx
    import jax
    import jax.numpy as jnp

    if not pert:
        return tree
    arrs, rest = eqx.partition(tree, eqx.is_inexact_array)
    arrs = jax.tree_util.tree_map(lambda a: a + pert * 0.1 * jnp.sin(1.0 + jnp.arange(a.size, dtype=a.dtype).reshape(a.shape)), arrs)
    return eqx.combine(arrs, rest)


# ------------------------------------------------------------------ (a) PINN
def run_pinn(case):
    import jax
    import jax.numpy as jnp
    import jinns

    c = case
    eq_type, dx = c["eq_type"], c["dim_x"]
    din = {"ODE": 1, "statio_PDE": dx, "nonstatio_PDE": 1 + dx}[eq_type]
    net_in = din + (1 if c["tin"] == "periodic" else 0)
    labels = ["pinn", eq_type, f"in-{c['tin']}", f"out-{c['tout']}"]
    eqx_list = _eqx_list(net_in, c["widths"], c["acts"], c["m"])
    shared = None
    if c["shared"] is not None:
        shared = tuple((s if isinstance(s, int) else jnp.s_[s[0]:s[1]]) for s in c["shared"])
        labels.append("shared")
    u = jinns.utils.create_PINN(jax.random.PRNGKey(c["key"]), eqx_list, eq_type, dx if eq_type != "ODE" else 0,
                                input_transform=None if c["tin"] == "none" else IN_T[c["tin"]],
                                output_transform=None if c["tout"] == "none" else OUT_T[c["tout"]],
                                shared_pinn_outputs=shared)
    nets = u if isinstance(u, list) else [u]
    nn = nets[0].init_params()
    for other in nets[1:]:
        la, lb = jax.tree_util.tree_leaves(nn), jax.tree_util.tree_leaves(other.init_params())
        if len(la) != len(lb) or not all(np.array_equal(np.asarray(a), np.asarray(b)) for a, b in zip(la, lb)):
            return fail("shared-output-networks-have-different-parameters", {}, labels=labels)
    nn = _perturb(nn, c.get("pert", 0))
    if c.get("pert"):
        labels.append("perturbed-params")
    eqp = {"theta": jnp.asarray(c["theta"]), "beta": jnp.asarray([c["beta"]])}
    neqp = {"theta": np.asarray(c["theta"]), "beta": np.asarray([c["beta"]])}
    params = jinns.parameters.Params(nn_params=nn, eq_params=eqp)
    needs_eq = c["tin"] == "periodic" or c["tout"] == "scale"
    W = _linear_leaves(nn)
    nlin = len(W)
    acts = list(c["acts"][:nlin])
    z = np.asarray(c["z"], dtype=np.float64)[:din]
    raw = np_mlp(W, acts, np_in(c["tin"], z, neqp))
    raw_sq = raw[0] if raw.shape == (1,) else raw  # the wrapper squeezes the network output before the transform
    full = np.atleast_1d(np_out(c["tout"], z, raw_sq, neqp))
    outs = []
    for k, net in enumerate(nets):
        if c["shared"] is None:
            want = full
        else:
            s = c["shared"][k]
            want = np.atleast_1d(full[s]) if isinstance(s, int) else full[s[0]:s[1]]
        variants = [("Params", params)]
        if not needs_eq:
            variants.append(("bare", nn))
        for vname, prm in variants:
            if eq_type == "ODE":
                calls = [("t(1,)", (jnp.asarray(z[0:1]), prm)), ("t()", (jnp.asarray(z[0]), prm))]
            elif eq_type == "statio_PDE":
                calls = [("x", (jnp.asarray(z), prm))]
            else:
                calls = [("t,x", (jnp.asarray(z[0:1]), jnp.asarray(z[1:]), prm))]
            for cname, args in calls:
                got = np.asarray(net(*args), dtype=np.float64)
                if got.ndim != 1:
                    return fail("output-without-trailing-component-axis", {"shape": list(got.shape), "call": cname, "params": vname},
                                labels=labels)
                if got.shape != want.shape or not np.allclose(got, want, rtol=TOL, atol=TOL):
                    return fail(f"pinn-output-value:{'bare-params' if vname == 'bare' else 'Params'}",
                                {"got": got.tolist(), "want": want.tolist(), "call": cname, "net": k, "tin": c["tin"], "tout": c["tout"],
                                 "shared": c["shared"]}, labels=labels)
        outs.append(want)
    dist = len(full) < 2 or all(abs(a - b) > 1e-6 for i, a in enumerate(full) for b in full[i + 1:])
    nt = (c["m"] >= 2 or c["tin"] != "none" or c["tout"] != "none") and dist
    return ok(nontrivial=nt, labels=labels, detail={"want": full.tolist()})


def strat_pinn():
    from hypothesis import strategies as st

    from vpkit.fields import q16

    @st.composite
    def s(draw):
        eq_type = draw(st.sampled_from(["ODE", "statio_PDE", "nonstatio_PDE"]))
        dx = draw(st.integers(1, 3))
        nl = draw(st.integers(1, 3))
        m = draw(st.integers(1, 3))
        widths = [draw(st.integers(1, 6)) for _ in range(nl - 1)]
        acts = [draw(st.sampled_from(["tanh", "sin", "softplus"])) for _ in range(nl - 1)] + \
               [draw(st.sampled_from(["identity", "identity", "tanh"]))]
        shared = None
        if m >= 2 and draw(st.booleans()):
            shared = []
            for _ in range(draw(st.integers(1, 3))):
                lo = draw(st.integers(0, m - 1))
                hi = draw(st.integers(lo + 1, m))
                if hi - lo == 1 and draw(st.booleans()):
                    # a bare int, possibly negative (python indexing: -1 is the last output)
                    shared.append(lo - m if draw(st.booleans()) else lo)
                else:
                    shared.append([lo, hi])
        return {"eq_type": eq_type, "dim_x": dx, "widths": widths, "acts": acts, "m": m,
                "tin": draw(st.sampled_from(["none", "affine", "periodic"])), "tout": draw(st.sampled_from(["none", "hard", "scale"])),
                "shared": shared, "key": draw(st.integers(0, 2**31 - 1)), "theta": draw(q16(0.5, 2)), "beta": draw(q16(-1, 1)),
                "z": [draw(q16(-2, 2)) for _ in range(4)], "pert": draw(st.sampled_from([0, 1, -1, 2, 3]))}

    return s()


# ------------------------------------------------------------------ (b) SPINN
def run_spinn(case):
    import equinox as eqx
    import jax
    import jax.numpy as jnp
    import jinns

    c = case
    d, r, m, B = c["d"], c["r"], c["m"], c["B"]
    labels = ["spinn", c["eq_type"], f"d{d}", f"r{r}", f"m{m}"]
    eqx_list = ((eqx.nn.Linear, 1, c["h"]), (_jact(c["act"]),), (eqx.nn.Linear, c["h"], r * m))
    u = jinns.utils.create_SPINN(jax.random.PRNGKey(c["key"]), d, r, eqx_list, c["eq_type"], m)
    nn = _perturb(u.init_params(), c.get("pert", 0))
    if c.get("pert"):
        labels.append("perturbed-params")
    cols = np.asarray(c["cols"], dtype=np.float64)[:d, :B]  # (d, B)
    # per-dimension embeddings from the leaves
    emb = []
    for k in range(d):
        layers = nn.separated_mlp[k]
        W = [(np.asarray(l.weight, dtype=np.float64), np.asarray(l.bias, dtype=np.float64)) for l in layers if hasattr(l, "weight") and l.weight is not None]
        emb.append(np.stack([np_mlp(W, [c["act"], "identity"], np.array([cols[k, b]])) for b in range(B)]))  # (B, r*m)
    want = np.zeros((B,) * d + (m,))
    for idx in np.ndindex(*([B] * d)):
        for k in range(m):
            acc = 0.0
            for rr in range(r):
                prod = 1.0
                for dim in range(d):
                    prod *= emb[dim][idx[dim], k * r + rr]
                acc += prod
            want[idx + (k,)] = acc
    params = jinns.parameters.Params(nn_params=nn, eq_params={"theta": jnp.asarray(1.0)})
    for vname, prm in (("Params", params), ("bare", nn)):
        if c["eq_type"] == "statio_PDE":
            got = u(jnp.asarray(cols.T), prm)
        else:
            got = u(jnp.asarray(cols[0][:, None]), jnp.asarray(cols[1:].T), prm)
        got = np.asarray(got, dtype=np.float64)
        if got.shape != want.shape:
            return fail("spinn-output-shape", {"got": list(got.shape), "want": list(want.shape)}, labels=labels)
        if not np.allclose(got, want, rtol=1e-9, atol=1e-10):
            return fail("spinn-output-value", {"params": vname, "max_err": float(np.max(np.abs(got - want)))}, labels=labels)
    flat = want.reshape(-1, m)
    dist = m < 2 or float(np.min(np.abs(flat[:, 0] - flat[:, 1]))) > 1e-9
    asym = d < 2 or B < 2 or float(np.max(np.abs(want - np.swapaxes(want, 0, 1)))) > 1e-6
    return ok(nontrivial=m >= 2 and r >= 2 and dist and asym, labels=labels)


def strat_spinn():
    from hypothesis import strategies as st

    from vpkit.fields import q16

    @st.composite
    def s(draw):
        eq_type = draw(st.sampled_from(["statio_PDE", "nonstatio_PDE"]))
        d = draw(st.integers(1 if eq_type == "statio_PDE" else 2, 3))
        B = draw(st.sampled_from([1, 2, 2, 3, 3]))
        cols = [draw(st.lists(q16(-2, 2), min_size=3, max_size=3, unique=True)) for _ in range(3)]
        return {"eq_type": eq_type, "d": d, "r": draw(st.sampled_from([1, 2, 2, 3, 4])), "m": draw(st.sampled_from([1, 2, 2, 3, 3])), "B": B,
                "h": draw(st.integers(1, 5)), "act": draw(st.sampled_from(["tanh", "sin", "softplus"])),
                "key": draw(st.integers(0, 2**31 - 1)), "cols": cols, "pert": draw(st.sampled_from([0, 1, -1, 2, 3]))}

    return s()


# ------------------------------------------------------------------ (c) HYPERPINN
def run_hyper(case):
    import equinox as eqx
    import jax
    import jax.numpy as jnp
    import jinns

    c = case
    eq_type, dx = c["eq_type"], c["dim_x"]
    din = {"ODE": 1, "statio_PDE": dx, "nonstatio_PDE": 1 + dx}[eq_type]
    labels = ["hyperpinn", eq_type, f"hp{len(c['hyper'])}", "custom-hyper" if c["hyper_widths"] is not None else "default-hyper"]
    tin = c.get("tin", "none")
    net_in = din + (1 if tin == "periodic" else 0)
    if tin != "none":
        labels.append(f"in-{tin}")
    eqx_list = _eqx_list(net_in, c["widths"], c["acts"], c["m"])
    eqp_np = {k: np.asarray(v, dtype=np.float64) for k, v in c["eq_params"].items()}
    eqp = {k: jnp.asarray(v, dtype=float) for k, v in c["eq_params"].items()}
    hsize = int(sum(eqp_np[k].size for k in c["hyper"]))
    kw = {}
    if c["hyper_widths"] is not None:
        kw["eqx_list_hyper"] = _eqx_list(hsize, c["hyper_widths"], c["hyper_acts"], 1)
    if c.get("shared") is not None:
        kw["shared_pinn_outputs"] = tuple((s_ if isinstance(s_, int) else jnp.s_[s_[0]:s_[1]]) for s_ in c["shared"])
        labels.append("shared")
    u = jinns.utils.create_HYPERPINN(jax.random.PRNGKey(c["key"]), eqx_list, eq_type, list(c["hyper"]), hsize,
                                     dx if eq_type != "ODE" else 0,
                                     input_transform=None if tin == "none" else IN_T[tin],
                                     output_transform=None if c["tout"] == "none" else OUT_T[c["tout"]], **kw)
    nets = u if isinstance(u, list) else [u]
    u = nets[0]
    for other in nets[1:]:
        la, lb = jax.tree_util.tree_leaves(u.init_params()), jax.tree_util.tree_leaves(other.init_params())
        if len(la) != len(lb) or not all(np.array_equal(np.asarray(a), np.asarray(b)) for a, b in zip(la, lb)):
            return fail("shared-output-networks-have-different-parameters", {"wrapper": "hyperpinn"}, labels=labels)
    hp = _perturb(u.init_params(), c.get("pert", 0))
    if c.get("pert"):
        labels.append("perturbed-params")
    params = jinns.parameters.Params(nn_params=hp, eq_params=eqp)
    # hyper forward pass
    HW = _linear_leaves(hp)
    if c["hyper_widths"] is not None:
        hacts = list(c["hyper_acts"][: len(HW)])
    else:
        hacts = list(c["acts"][: len(HW)])
    hin = np.concatenate([eqp_np[k].reshape(-1) for k in c["hyper"]])
    hout = np_mlp(HW, hacts, hin)
    # split in leaf order of the inner network's parameters
    inner = u.params
    inner_leaves = [np.asarray(l) for l in jax.tree_util.tree_leaves(inner)]
    sizes = [l.size for l in inner_leaves]
    if hout.shape != (sum(sizes),):
        return fail("hyper-output-size", {"got": list(hout.shape), "want": sum(sizes)}, labels=labels)
    chunks, off = [], 0
    for l in inner_leaves:
        chunks.append(hout[off:off + l.size].reshape(l.shape))
        off += l.size
    # leaf order of an _MLP: for each Linear layer weight then bias
    W = [(chunks[2 * j], chunks[2 * j + 1]) for j in range(len(chunks) // 2)]
    z = np.asarray(c["z"], dtype=np.float64)[:din]
    neqp = {"theta": eqp_np.get("theta", np.asarray(1.0)), "beta": eqp_np.get("beta", np.asarray([0.0]))}
    raw = np_mlp(W, list(c["acts"][: len(W)]), np_in(tin, z, neqp))
    raw_sq = raw[0] if raw.shape == (1,) else raw
    full = np.atleast_1d(np_out(c["tout"], z, raw_sq, neqp))
    for k, net in enumerate(nets):
        if c.get("shared") is None:
            want = full
        else:
            s_ = c["shared"][k]
            want = np.atleast_1d(full[s_]) if isinstance(s_, int) else full[s_[0]:s_[1]]
        if eq_type == "ODE":
            got = net(jnp.asarray(z[0:1]), params)
        elif eq_type == "statio_PDE":
            got = net(jnp.asarray(z), params)
        else:
            got = net(jnp.asarray(z[0:1]), jnp.asarray(z[1:]), params)
        got = np.asarray(got, dtype=np.float64)
        if got.shape != want.shape or not np.allclose(got, want, rtol=1e-9, atol=1e-10):
            return fail("hyperpinn-output-value", {"got": got.tolist(), "want": want.tolist(), "hyper": c["hyper"], "net": k,
                                                   "tin": tin, "shared": c.get("shared")}, labels=labels)
    want = full
    return ok(nontrivial=len(c["hyper"]) >= 2 and float(np.max(np.abs(want))) > 1e-9, labels=labels)


def strat_hyper():
    from hypothesis import strategies as st

    from vpkit.fields import q16

    @st.composite
    def s(draw):
        eq_type = draw(st.sampled_from(["ODE", "statio_PDE", "nonstatio_PDE"]))
        nl = draw(st.integers(1, 2))
        widths = [draw(st.integers(1, 4)) for _ in range(nl - 1)]
        acts = [draw(st.sampled_from(["tanh", "sin"])) for _ in range(nl - 1)] + ["identity"]
        eq_params = {"theta": draw(q16(0.5, 2)), "beta": [draw(q16(-1, 1))], "gamma": [draw(q16(-1, 1)), draw(q16(-1, 1))],
                     "delta": draw(q16(-1, 1))}
        hyper = draw(st.lists(st.sampled_from(["theta", "beta", "gamma", "delta"]), min_size=1, max_size=3, unique=True))
        custom = draw(st.booleans())
        hw = [draw(st.integers(1, 4)) for _ in range(draw(st.integers(0, 1)))] if custom else None
        ha = ([draw(st.sampled_from(["tanh", "sin"])) for _ in range(len(hw))] + ["identity"]) if custom else None
        m = draw(st.integers(1, 3))
        shared = None
        if m >= 2 and draw(st.booleans()):
            shared = []
            for _ in range(draw(st.integers(1, 2))):
                lo = draw(st.integers(0, m - 1))
                hi = draw(st.integers(lo + 1, m))
                shared.append((lo - m if draw(st.booleans()) else lo) if (hi - lo == 1 and draw(st.booleans())) else [lo, hi])
        return {"eq_type": eq_type, "dim_x": draw(st.integers(1, 2)), "widths": widths, "acts": acts, "m": m,
                "tin": draw(st.sampled_from(["none", "none", "affine", "periodic"])), "shared": shared,
                "eq_params": eq_params, "hyper": hyper, "hyper_widths": hw, "hyper_acts": ha,
                "tout": draw(st.sampled_from(["none", "scale"])), "key": draw(st.integers(0, 2**31 - 1)),
                "z": [draw(q16(-2, 2)) for _ in range(3)], "pert": draw(st.sampled_from([0, 1, -1, 2, 3]))}

    return s()


def subchecks():
    return [
        SubCheck(name="pinn_forward_conventions", mode="given", strategy=strat_pinn, run_case=run_pinn,
                 counts={"quick": 200, "thorough": 20000}, shards={"quick": 4, "thorough": 16}, clear_every=80,
                 min_nontrivial_frac=0.3, doc="create_PINN wrappers vs numpy forward pass + transforms + slices, all calling conventions"),
        SubCheck(name="spinn_tensor_grid", mode="given", strategy=strat_spinn, run_case=run_spinn,
                 counts={"quick": 100, "thorough": 8000}, shards={"quick": 2, "thorough": 16}, clear_every=60,
                 min_nontrivial_frac=0.2, doc="create_SPINN output vs sum_r prod_d f_d(x_d) from the leaves"),
        SubCheck(name="hyperpinn_weight_generation", mode="given", strategy=strat_hyper, run_case=run_hyper,
                 counts={"quick": 100, "thorough": 8000}, shards={"quick": 2, "thorough": 16}, clear_every=60,
                 min_nontrivial_frac=0.2, doc="create_HYPERPINN output vs hyper forward -> split in leaf order -> inner forward"),
    ]
