"""C11 - forward-mode (separable) and reverse-mode (pointwise) computations agree."""
from __future__ import annotations

import functools
import itertools

import numpy as np

from vpkit import SubCheck, fail, ok

PROPERTY = "C11"
LEVEL = "exploration"
RULE = (
    "cases = separable networks from create_SPINN (embedding size r 1..4, outputs m 1..2, separated dimensions 1..3 "
    "incl. time, batch 2..3 per axis with distinct coordinates, random keys / activations) and their POINTWISE TWINS: a "
    "genuine PINN whose module evaluates sum_r prod_d f_d(z_d) at one point with the same weights. (a) operators "
    "(Laplacian, divergence, vector Laplacian, advection) forward-mode on the SPINN vs reverse-mode on the twin at every "
    "grid index; (b) built-in equations (Burgers, Fisher-KPP d<=2, OU Fokker-Planck, mass conservation, Navier-Stokes) "
    "with random parameters and Tmax; (c) loss terms through LossPDEStatio / LossPDENonStatio: Dirichlet and Neumann "
    "boundary (1-D/2-D, with/without time), initial condition, normalisation, dynamic term: SPINN term == twin term on "
    "the explicit cartesian-product batch. Oracle: differential, grid index (i_1..i_d) <-> point (x_i1, ..., x_id), axes "
    "ordered time first then space. Non-trivial = batch >= 2 per axis, >= 2 separated dimensions, the grid of values is "
    "not symmetric under exchange of its first two axes (a transposition would be visible) and values are non-zero."
)
ASSUMPTIONS = ["tolerance 1e-8*(1+|value|) in x64 (second derivatives of small MLPs)",
               "the observation term is not implemented for SPINNs and is not generated"]
TOL = 1e-8


@functools.lru_cache(maxsize=None)
def twin_cls():
    import equinox as eqx
    import jax.numpy as jnp

    class Twin(eqx.Module):
        inner: eqx.Module
        r: int = eqx.field(static=True)
        m: int = eqx.field(static=True)

        def __call__(self, z):
            out = self.inner(None, z)  # (d, r*m)
            vals = [jnp.sum(jnp.prod(out[:, k * self.r:(k + 1) * self.r], axis=0)) for k in range(self.m)]
            return jnp.stack(vals)

    return Twin


def _ident_in(i, p):
    return i


def _ident_out(i, o, p):
    return o


def make_pair(c, eq_type, d, m=None):
    """(spinn, twin PINN, spinn nn params, twin nn params)."""
    import equinox as eqx
    import jax
    import jax.numpy as jnp
    import jinns

    m = m or c["m"]
    act = {"tanh": jax.nn.tanh, "sin": jnp.sin, "softplus": jax.nn.softplus}[c["act"]]
    eqx_list = ((eqx.nn.Linear, 1, c["h"]), (act,), (eqx.nn.Linear, c["h"], c["r"] * m))
    if c.get("positive"):
        eqx_list = eqx_list + ((jnp.exp,),)
    s = jinns.utils.create_SPINN(jax.random.PRNGKey(c["key"]), d, c["r"], eqx_list, eq_type, m)
    module = eqx.combine(s.params, s.static)
    twin = jinns.utils.PINN(mlp=twin_cls()(inner=module, r=c["r"], m=m), slice_solution=jnp.s_[0:m], eq_type=eq_type,
                            input_transform=_ident_in, output_transform=_ident_out)
    return s, twin, s.init_params(), twin.init_params()


def _cols(c, d):
    return np.asarray(c["cols"], dtype=np.float64)[:d, :c["B"]]


def _cmp_grid(grid, point_fn, cols, labels, what):
    """grid: array (B,)*d + comp ; point_fn(z) -> array comp."""
    d, B = cols.shape
    grid = np.asarray(grid, dtype=np.float64)
    worst = 0.0
    for idx in itertools.product(range(B), repeat=d):
        z = np.array([cols[k, idx[k]] for k in range(d)])
        want = np.asarray(point_fn(z), dtype=np.float64)
        got = grid[idx]
        if np.asarray(got).reshape(-1).shape != want.reshape(-1).shape:
            return fail(f"{what}-shape", {"grid_shape": list(grid.shape), "point_shape": list(want.shape)}, labels=labels), None
        err = float(np.max(np.abs(np.asarray(got).reshape(-1) - want.reshape(-1))))
        if not err <= TOL * (1 + float(np.max(np.abs(want)))):
            return fail(f"{what}-value", {"index": list(idx), "grid": np.asarray(got).reshape(-1).tolist(),
                                          "pointwise": want.reshape(-1).tolist()}, labels=labels), None
        worst = max(worst, err)
    g2 = grid.reshape(grid.shape[:d] + (-1,))[..., 0]
    asym = d >= 2 and float(np.max(np.abs(g2 - np.swapaxes(g2, 0, 1)))) > 1e-6
    nz = float(np.max(np.abs(grid))) > 1e-9
    return None, (asym and nz and B >= 2)


# ------------------------------------------------------------------ (a) operators
def run_ops(case):
    import jax.numpy as jnp
    import jinns
    from jinns.loss import _operators as O

    c = case
    op, time, dx = c["op"], c["time"], c["dx"]
    d = dx + (1 if time else 0)
    m = {"lap": 1, "div": dx, "vlap": c["nvec"], "adv": 2}[op]
    eq_type = "nonstatio_PDE" if time else "statio_PDE"
    s, twin, ps, pt = make_pair(c, eq_type, d, m)
    labels = ["op", op, f"d{dx}", "time" if time else "notime"]
    cols = _cols(c, d)
    P = jinns.parameters.Params
    prm_s, prm_t = P(nn_params=ps, eq_params={"nu": jnp.asarray(1.0)}), P(nn_params=pt, eq_params={"nu": jnp.asarray(1.0)})
    X = jnp.asarray(cols[(1 if time else 0):].T)
    T = jnp.asarray(cols[0][:, None]) if time else None
    if op == "lap":
        grid = O._laplacian_fwd(T, X, s, prm_s)
        pf = lambda z: O._laplacian_rev(jnp.asarray(z[:1]) if time else None, jnp.asarray(z[(1 if time else 0):]), twin, prm_t)
    elif op == "div":
        grid = O._div_fwd(T, X, s, prm_s)
        pf = lambda z: O._div_rev(jnp.asarray(z[:1]) if time else None, jnp.asarray(z[(1 if time else 0):]), twin, prm_t)
    elif op == "vlap":
        grid = jnp.moveaxis(O._vectorial_laplacian(T, X, s, prm_s, u_vec_ndim=m), 0, -1)
        pf = lambda z: O._vectorial_laplacian(jnp.asarray(z[:1]) if time else None, jnp.asarray(z[(1 if time else 0):]), twin, prm_t,
                                              u_vec_ndim=m)
    else:
        grid = O._u_dot_nabla_times_u_fwd(T, X, s, prm_s)
        pf = lambda z: O._u_dot_nabla_times_u_rev(jnp.asarray(z[:1]) if time else None, jnp.asarray(z[(1 if time else 0):]), twin, prm_t)
    v, nt = _cmp_grid(grid, pf, cols, labels, f"operator-{op}")
    if v is not None:
        return v
    return ok(nontrivial=nt, labels=labels)


def _net_cfg(draw, st, q16):
    B = draw(st.integers(2, 3))
    return {"r": draw(st.integers(1, 4)), "m": draw(st.integers(1, 2)), "h": draw(st.integers(2, 5)),
            "act": draw(st.sampled_from(["tanh", "sin", "softplus"])), "key": draw(st.integers(0, 2**31 - 1)), "B": B,
            "cols": [draw(st.lists(q16(-1.5, 1.5), min_size=3, max_size=3, unique=True)) for _ in range(4)]}


def strat_ops():
    from hypothesis import strategies as st

    from vpkit.fields import q16

    @st.composite
    def s(draw):
        c = _net_cfg(draw, st, q16)
        op = draw(st.sampled_from(["lap", "div", "vlap", "adv"]))
        time = draw(st.booleans())
        dx = 2 if op == "adv" else draw(st.integers(1, 2 if time else 3))
        c.update(op=op, time=time, dx=dx, nvec=draw(st.integers(1, 3)))
        return c

    return s()


# ------------------------------------------------------------------ (b) built-in equations
def run_eqs(case):
    import jax.numpy as jnp
    import jinns

    c = case
    eqn = c["eq"]
    L, Pm = jinns.loss, jinns.parameters
    labels = ["equation", eqn]
    f = lambda v: jnp.asarray(v, dtype=float)
    if eqn in ("burgers", "fisher", "ou"):
        dx = {"burgers": 1, "fisher": c["dx"], "ou": 2}[eqn]
        d = 1 + dx
        cc = dict(c, positive=False)
        s, twin, ps, pt = make_pair(cc, "nonstatio_PDE", d, 1)
        cols = _cols(c, d)
        if eqn == "burgers":
            eq = L.BurgerEquation(Tmax=c["Tmax"])
            eqp = {"nu": f(c["p"][0])}
        elif eqn == "fisher":
            eq = L.FisherKPP(Tmax=c["Tmax"])
            eqp = {"D": f(c["p"][0]), "r": f(c["p"][1]), "g": f(c["p"][2])}
        else:
            eq = L.OU_FPENonStatioLoss2D(Tmax=c["Tmax"])
            eqp = {"alpha": f([c["p"][0], c["p"][1]]), "mu": f([c["p"][2] - 1, c["p"][3] - 1]), "sigma": f([c["p"][1], c["p"][2]])}
        prm_s, prm_t = Pm.Params(nn_params=ps, eq_params=eqp), Pm.Params(nn_params=pt, eq_params=eqp)
        grid = eq.evaluate(jnp.asarray(cols[0][:, None]), jnp.asarray(cols[1:].T), s, prm_s)
        pf = lambda z: eq.evaluate(jnp.asarray(z[:1]), jnp.asarray(z[1:]), twin, prm_t)
    elif eqn == "mass":
        s, twin, ps, pt = make_pair(c, "statio_PDE", 2, 2)
        cols = _cols(c, 2)
        eq = L.MassConservation2DStatio(nn_key="u")
        eqp = {"rho": f(1.0)}
        grid = eq.evaluate(jnp.asarray(cols.T), {"u": s}, Pm.ParamsDict(nn_params={"u": ps}, eq_params=eqp))
        pf = lambda z: eq.evaluate(jnp.asarray(z), {"u": twin}, Pm.ParamsDict(nn_params={"u": pt}, eq_params=eqp))
    else:  # navier-stokes
        s, twin, ps, pt = make_pair(c, "statio_PDE", 2, 2)
        c2 = dict(c, key=c["key"] + 1)
        sp, twinp, psp, ptp = make_pair(c2, "statio_PDE", 2, 1)
        cols = _cols(c, 2)
        eq = L.NavierStokes2DStatio(u_key="u", p_key="p")
        eqp = {"rho": f(c["p"][0] + 0.5), "nu": f(c["p"][1])}
        grid = eq.evaluate(jnp.asarray(cols.T), {"u": s, "p": sp}, Pm.ParamsDict(nn_params={"u": ps, "p": psp}, eq_params=eqp))
        pf = lambda z: eq.evaluate(jnp.asarray(z), {"u": twin, "p": twinp}, Pm.ParamsDict(nn_params={"u": pt, "p": ptp}, eq_params=eqp))
    v, nt = _cmp_grid(grid, pf, cols, labels, f"equation-{eqn}")
    if v is not None:
        return v
    return ok(nontrivial=nt, labels=labels)


def strat_eqs():
    from hypothesis import strategies as st

    from vpkit.fields import q16
    from vpkit.strats import pos16

    @st.composite
    def s(draw):
        c = _net_cfg(draw, st, q16)
        c.update(eq=draw(st.sampled_from(["burgers", "fisher", "ou", "mass", "ns"])), dx=draw(st.integers(1, 2)),
                 Tmax=draw(st.sampled_from([0.5, 1.0, 2.0, 10.0])), p=[draw(pos16(0.25, 2)) for _ in range(4)])
        return c

    return s()


# ------------------------------------------------------------------ (c) loss terms
def _bf_statio(x):
    import jax.numpy as jnp

    return 0.5 * jnp.sin(1.25 * x[..., -1:]) + 0.3


def _bf_nonstatio(t, x):
    import jax.numpy as jnp

    return 0.5 * jnp.sin(1.25 * x[..., -1:] + 0.75 * t[..., 0:1]) + 0.3


def _ic(x):
    import jax.numpy as jnp

    return 0.4 * jnp.cos(0.8 * x[..., 0:1]) + 0.1


def _grid_points(cols):
    return np.array([[cols[k, idx[k]] for k in range(cols.shape[0])] for idx in itertools.product(range(cols.shape[1]), repeat=cols.shape[0])])


def run_terms(case):
    import warnings

    import jax.numpy as jnp
    import jinns

    c = case
    time, dx, B = c["time"], c["dx"], c["B"]
    d = dx + (1 if time else 0)
    eq_type = "nonstatio_PDE" if time else "statio_PDE"
    s, twin, ps, pt = make_pair(c, eq_type, d, 1)
    cols = _cols(c, d)
    labels = ["terms", f"d{dx}", "time" if time else "notime", c["cond"]]
    L, Pm, D = jinns.loss, jinns.parameters, jinns.data
    eqp = {"nu": jnp.asarray(c["p"][0]), "D": jnp.asarray(c["p"][0]), "r": jnp.asarray(c["p"][1]), "g": jnp.asarray(c["p"][2])}
    prm_s, prm_t = Pm.Params(nn_params=ps, eq_params=eqp), Pm.Params(nn_params=pt, eq_params=eqp)
    mn, mx = [-1.0] * dx, [1.25] * dx
    xcols = cols[(1 if time else 0):]
    # border batch (B, dx, 2dx) ; 1-D: (1,1,2)
    if dx == 1:
        border = np.array([mn[0], mx[0]])[None, None, :]
    else:
        border = np.zeros((B, 2, 4))
        for f_ in range(4):
            ax = f_ // 2
            border[:, ax, f_] = (mn if f_ % 2 == 0 else mx)[ax]
            border[:, 1 - ax, f_] = xcols[1 - ax]
    J = 2 * B if time else B + 1
    nsamp = np.stack([np.linspace(mn[k] + 0.1 * (k + 1), mx[k] - 0.05, J) for k in range(dx)], axis=1)  # (J, dx) columns
    vol = 2.5
    common = dict(omega_boundary_condition=c["cond"], norm_int_length=vol,
                  loss_weights=None)
    if time:
        if c["dyn"] == "burgers" and dx == 1:
            dyn = L.BurgerEquation(Tmax=c["Tmax"])
        else:
            dyn = L.FisherKPP(Tmax=c["Tmax"])
        tcol = cols[0]
        # SPINN batch: column-wise (non cartesian) ; twin batch: explicit product
        tx_s = np.concatenate([tcol[:, None], xcols.T], axis=1)
        if dx == 1:
            tb_s = np.zeros((B, 2, 2))
            tb_s[:, 0, :] = tcol[:, None]
            tb_s[:, 1, :] = border[0, 0][None, :]
            tb_t = tb_s
        else:
            tb_s = np.concatenate([np.repeat(tcol[:, None, None], 4, axis=2), border], axis=1)  # (B, 3, 4)
            tb_t = np.zeros((B * B, 3, 4))
            r_ = 0
            for a in range(B):
                for b in range(B):
                    tb_t[r_, 0, :] = tcol[a]
                    tb_t[r_, 1:, :] = border[b]
                    r_ += 1
        bs = D.PDENonStatioBatch(times_x_inside_batch=jnp.asarray(tx_s), times_x_border_batch=jnp.asarray(tb_s))
        bt = D.PDENonStatioBatch(times_x_inside_batch=jnp.asarray(_grid_points(cols)), times_x_border_batch=jnp.asarray(tb_t))
        with warnings.catch_warnings():
            warnings.simplefilter("ignore")
            ls = L.LossPDENonStatio(u=s, dynamic_loss=dyn, omega_boundary_fun=_bf_nonstatio, initial_condition_fun=_ic,
                                    norm_samples=jnp.asarray(nsamp), params=prm_s, **common)
            lt = L.LossPDENonStatio(u=twin, dynamic_loss=dyn, omega_boundary_fun=_bf_nonstatio, initial_condition_fun=_ic,
                                    norm_samples=jnp.asarray(_grid_points(nsamp.T)), params=prm_t, **common)
    else:
        dyn = None
        bs = D.PDEStatioBatch(inside_batch=jnp.asarray(xcols.T), border_batch=jnp.asarray(border))
        bt = D.PDEStatioBatch(inside_batch=jnp.asarray(_grid_points(xcols)), border_batch=jnp.asarray(border))
        with warnings.catch_warnings():
            warnings.simplefilter("ignore")
            ls = L.LossPDEStatio(u=s, dynamic_loss=None, omega_boundary_fun=_bf_statio, norm_samples=jnp.asarray(nsamp),
                                 params=prm_s, **common)
            lt = L.LossPDEStatio(u=twin, dynamic_loss=None, omega_boundary_fun=_bf_statio,
                                 norm_samples=jnp.asarray(_grid_points(nsamp.T)), params=prm_t, **common)
    _, terms_s = ls.evaluate(prm_s, bs)
    _, terms_t = lt.evaluate(prm_t, bt)
    nz = True
    for k in ("boundary_loss", "initial_condition", "norm_loss", "dyn_loss"):
        if np.asarray(terms_s[k]).size != 1 or np.asarray(terms_t[k]).size != 1:
            return fail(f"term-{k}-not-scalar", {"spinn_shape": list(np.asarray(terms_s[k]).shape),
                                                 "twin_shape": list(np.asarray(terms_t[k]).shape)}, labels=labels)
        a, b = float(np.asarray(terms_s[k]).reshape(-1)[0]), float(np.asarray(terms_t[k]).reshape(-1)[0])
        if not abs(a - b) <= TOL * (1 + abs(b)):
            sub = f":{'neumann' if c['cond'] != 'dirichlet' else 'dirichlet'}" if k == "boundary_loss" else ""
            return fail(f"term-{k}{sub}", {"spinn": a, "pointwise_twin": b, "dim_x": dx, "time": time}, labels=labels)
        if k in ("boundary_loss", "norm_loss"):
            nz = nz and b > 1e-9
    return ok(nontrivial=nz and d >= 2, labels=labels, detail={k: float(v) for k, v in terms_t.items()})


def strat_terms():
    from hypothesis import strategies as st

    from vpkit.fields import q16
    from vpkit.strats import pos16

    @st.composite
    def s(draw):
        c = _net_cfg(draw, st, q16)
        c.update(time=draw(st.booleans()), dx=draw(st.integers(1, 2)), cond=draw(st.sampled_from(["dirichlet", "neumann", "von neumann"])),
                 dyn=draw(st.sampled_from(["burgers", "fisher"])), Tmax=draw(st.sampled_from([0.5, 1.0, 2.0])),
                 p=[draw(pos16(0.25, 2)) for _ in range(3)])
        # border coordinates must lie on the facets: use columns inside the box for the free coordinate
        return c

    return s()


def subchecks():
    return [
        SubCheck(name="operators_grid_vs_pointwise", mode="given", strategy=strat_ops, run_case=run_ops,
                 counts={"quick": 48, "thorough": 1000}, shards={"quick": 6, "thorough": 16}, clear_every=10,
                 min_nontrivial_frac=0.25, doc="forward-mode operators on a SPINN vs reverse-mode operators on its pointwise twin"),
        SubCheck(name="equations_grid_vs_pointwise", mode="given", strategy=strat_eqs, run_case=run_eqs,
                 counts={"quick": 40, "thorough": 900}, shards={"quick": 6, "thorough": 16}, clear_every=8,
                 min_nontrivial_frac=0.25, doc="built-in dynamic losses on a SPINN vs on its pointwise twin"),
        SubCheck(name="loss_terms_spinn_vs_twin", mode="given", strategy=strat_terms, run_case=run_terms,
                 counts={"quick": 32, "thorough": 600}, shards={"quick": 6, "thorough": 16}, clear_every=6,
                 min_nontrivial_frac=0.25, doc="boundary / initial / normalisation / dynamic terms: SPINN vs twin on the explicit product batch"),
    ]
