"""C01 - differential operators return the mathematical operator's value.

Oracle: closed-form numpy derivatives of analytic fields (vpkit.fields), spatial indices only.
Metamorphic: changing unrelated eq_params leaves the result bit-identical.
"""
from __future__ import annotations

import itertools

import numpy as np

from vpkit import SubCheck, fail, ok
from vpkit.fields import Field, field_pinn, field_specs, monomials, q16

PROPERTY = "C01"
LEVEL = "exploration"
RULE = (
    "cases = (operator in {laplacian, divergence, vector laplacian, advection, advection through the "
    "Navier-Stokes residual}, AD mode rev/fwd, spatial dimension 1..4 (random fields, reverse mode: also 5, 6, 7, 9), with/without time argument, analytic field, "
    "evaluation point, unrelated parameter values). Fields: random trig+quadratic+Gaussian family (Hypothesis, "
    "dyadic coefficients) and, exhaustively, every monomial of total degree <=3 in (t,x_1..x_d) placed in every "
    "output component (advection: every ordered pair of monomials of degree <=2). Non-trivial = the true value is "
    "non-zero and differs by >1e-3 from the plausible wrong variants computed from the closed forms (time "
    "coordinate included in the operator / a cross term dropped / wrong component); for monomials: the operator "
    "does not annihilate the monomial or a wrong variant would not. distinct = distinct canonical JSON."
)
ASSUMPTIONS = [
    "closed-form derivatives of the analytic family are computed in numpy float64 independently of JAX autodiff",
    "tolerance |got-want| <= 1e-9*(1+sum of |terms|) in x64",
    "forward-mode operators are exercised on grid callables built from the same analytic fields (any callable is "
    "accepted by the fwd operators); the SPINN-specific dispatch is covered by C11",
]

TOL = 1e-9


def _ops():
    from jinns.loss import _operators as O

    return O


def oracle(op, F: Field, z, time, nvec=None):
    """Returns (want array, scale, alternatives list)."""
    V, G, H = F.all(z)
    off = 1 if time else 0
    d = F.din - off
    sp = range(off, off + d)
    if op == "lap":
        terms = [H[0, i, i] for i in sp]
        want = np.array(sum(terms))
        alts = []
        if time:
            alts.append(want + H[0, 0, 0])  # time included
            alts.append(want - H[0, off + d - 1, off + d - 1] + H[0, 0, 0])  # shifted indices
        if d > 1:
            alts.append(want - H[0, off + d - 1, off + d - 1])  # last coordinate dropped
            alts.append(np.array(H[0][np.ix_(list(sp), list(sp))].sum()))  # sum instead of trace
        if F.m > 1:
            alts.append(np.array(sum(H[1, i, i] for i in sp)))
        return want, sum(abs(t) for t in terms), alts
    if op == "div":
        terms = [G[i, off + i] for i in range(d)]
        want = np.array(sum(terms))
        alts = []
        if time:
            alts.append(np.array(sum(G[i, i] for i in range(d))))  # differentiated w.r.t. (t,x..) unshifted
        if d > 1:
            alts.append(np.array(sum(G[0, off + i] for i in range(d))))  # always component 0
            alts.append(np.array(sum(G[i, off] for i in range(d))))  # always coordinate 0
            alts.append(want - terms[-1])
        return want, sum(abs(t) for t in terms), alts
    if op == "vlap":
        n = nvec
        want = np.array([sum(H[k, i, i] for i in sp) for k in range(n)])
        scale = max(sum(abs(H[k, i, i]) for i in sp) for k in range(n))
        alts = []
        if time:
            alts.append(want + np.array([H[k, 0, 0] for k in range(n)]))
        if n > 1:
            alts.append(want[::-1].copy())
            alts.append(np.array([want[0]] * n))
        if d > 1:
            alts.append(want - np.array([H[k, off + d - 1, off + d - 1] for k in range(n)]))
        return want, scale, alts
    if op in ("adv", "adv_ns"):
        want = np.array([sum(V[j] * G[i, off + j] for j in range(2)) for i in range(2)])
        scale = max(sum(abs(V[j] * G[i, off + j]) for j in range(2)) for i in range(2))
        alts = [
            np.array([V[0] * G[i, off + 0] for i in range(2)]),  # cross term dropped
            np.array([sum(V[j] * G[j, off + i] for j in range(2)) for i in range(2)]),  # transposed jacobian
            np.array([sum(V[i] * G[i, off + j] for j in range(2)) for i in range(2)]),
        ]
        if time:
            alts.append(np.array([sum(V[j] * G[i, j] for j in range(2)) for i in range(2)]))
        return want, scale, alts
    raise ValueError(op)


def _nontrivial(want, alts, scale):
    if np.max(np.abs(want)) <= 1e-3:
        return False
    return all(np.max(np.abs(np.asarray(a) - want)) > 1e-3 for a in alts)


def _params(p, junk):
    import jax.numpy as jnp
    import jinns

    return jinns.parameters.Params(nn_params=p, eq_params={"junk": jnp.asarray(junk, dtype=float),
                                                            "nu": jnp.asarray(junk[0] * 0.5)})


def run_rev(case):
    import jax.numpy as jnp
    import jinns

    O = _ops()
    op, time, spec = case["op"], case["time"], case["field"]
    F = Field(spec)
    d = F.din - (1 if time else 0)
    x = jnp.asarray(case["x"], dtype=float)
    t = jnp.asarray([case["t"]], dtype=float) if time else None
    z = np.array(([case["t"]] if time else []) + list(case["x"]), dtype=np.float64)
    eq_type = "nonstatio_PDE" if time else "statio_PDE"
    u, p = field_pinn(spec, eq_type)
    labels = [op, f"d{d}", "time" if time else "notime", "rev"]
    nvec = case.get("nvec")
    want, scale, alts = oracle(op, F, z, time, nvec)
    outs = []
    for junk in (case["junk"], [v + 1.25 for v in case["junk"]]):
        prm = _params(p, junk)
        if op == "lap":
            got = O._laplacian_rev(t, x, u, prm)
        elif op == "div":
            got = O._div_rev(t, x, u, prm)
        elif op == "vlap":
            got = O._vectorial_laplacian(t, x, u, prm, u_vec_ndim=nvec) if (nvec != d or case.get("explicit_n")) \
                else O._vectorial_laplacian(t, x, u, prm)
        elif op == "adv":
            got = O._u_dot_nabla_times_u_rev(t, x, u, prm)
        elif op == "adv_ns":
            # through the Navier-Stokes residual with a constant pressure and zero viscosity
            pspec = {"din": 2, "m": 1, "sin": [[]], "quad": None, "gauss": None, "mono": None,
                     "lin": [[0.75, [0.0, 0.0]]], "post": "id"}
            pn, pp = field_pinn(pspec, "statio_PDE")
            ns = jinns.loss.NavierStokes2DStatio(u_key="u", p_key="p")
            pd = jinns.parameters.ParamsDict(nn_params={"u": p, "p": pp},
                                             eq_params={"rho": jnp.asarray(1.5 + abs(junk[0])), "nu": jnp.asarray(0.0),
                                                        "junk": jnp.asarray(junk)})
            got = ns.evaluate(x, {"u": u, "p": pn}, pd)
        outs.append(np.asarray(got, dtype=np.float64))
    got = outs[0]
    if got.shape != want.shape:
        return fail(f"{op}-shape", {"got": list(got.shape), "want": list(want.shape)}, labels=labels)
    err = float(np.max(np.abs(got - want)))
    if not err <= TOL * (1 + scale):
        return fail(f"{op}-value-{'time' if time else 'notime'}",
                    {"got": got.tolist(), "want": want.tolist(), "err": err, "scale": scale}, labels=labels)
    if not np.array_equal(outs[0], outs[1]):
        return fail(f"{op}-depends-on-unrelated-params", {"a": outs[0].tolist(), "b": outs[1].tolist()},
                    labels=labels)
    return ok(nontrivial=_nontrivial(want, alts, scale), labels=labels,
              detail={"want": want.tolist(), "err": err})


# ------------------------------------------------------------------ forward mode on grid callables
def _grid_callable(spec, time):
    """u(x, params) / u(t, x, params) evaluated on the tensor grid of the batch columns."""
    import jax
    import jax.numpy as jnp

    from vpkit.fields import make_field_module

    net = make_field_module(spec)

    def on_grid(cols):
        # cols: list of 1-D arrays (one per input coordinate) -> grid (B,..,B,m)
        mesh = jnp.meshgrid(*cols, indexing="ij")
        zz = jnp.stack(mesh, axis=-1)
        f = net
        for _ in range(len(cols)):
            f = jax.vmap(f)
        return f(zz)

    if time:
        return lambda t, x, params: on_grid([t[:, 0]] + [x[:, i] for i in range(x.shape[1])])
    return lambda x, params: on_grid([x[:, i] for i in range(x.shape[1])])


def run_fwd(case):
    import jax.numpy as jnp

    O = _ops()
    op, time, spec = case["op"], case["time"], case["field"]
    F = Field(spec)
    d = F.din - (1 if time else 0)
    X = np.asarray(case["xs"], dtype=np.float64)  # (B, d)
    T = np.asarray(case["ts"], dtype=np.float64).reshape(-1, 1) if time else None
    B = X.shape[0]
    u = _grid_callable(spec, time)
    x = jnp.asarray(X)
    t = jnp.asarray(T) if time else None
    prm = {"junk": jnp.asarray(case["junk"])}
    labels = [op, f"d{d}", "time" if time else "notime", "fwd"]
    if op == "lap":
        got = O._laplacian_fwd(t, x, u, prm)
    elif op == "div":
        got = O._div_fwd(t, x, u, prm)
    elif op == "adv":
        got = O._u_dot_nabla_times_u_fwd(t, x, u, prm)
    else:
        raise ValueError(op)
    got = np.asarray(got, dtype=np.float64)
    nax = d + (1 if time else 0)
    worst, wscale, nt_all = 0.0, 0.0, True
    for idx in itertools.product(range(B), repeat=nax):
        z = np.array(([T[idx[0], 0]] if time else []) + [X[idx[(1 if time else 0) + i], i] for i in range(d)])
        want, scale, alts = oracle(op, F, z, time)
        g = got[idx]
        if np.asarray(g).shape != want.shape:
            return fail(f"{op}-fwd-shape", {"got": list(got.shape), "B": B, "axes": nax}, labels=labels)
        err = float(np.max(np.abs(g - want)))
        if not err <= TOL * (1 + scale):
            return fail(f"{op}-fwd-value-{'time' if time else 'notime'}",
                        {"index": list(idx), "got": np.asarray(g).tolist(), "want": want.tolist(), "err": err},
                        labels=labels)
        worst = max(worst, err)
        nt_all = nt_all and _nontrivial(want, alts, scale)
    # grid must not be symmetric (otherwise an axis transposition is invisible)
    asym = True
    if nax >= 2:
        perm = list(range(nax))
        perm[0], perm[1] = perm[1], perm[0]
        gg = got if got.ndim == nax else got[..., 0]
        asym = float(np.max(np.abs(gg - np.transpose(gg, perm)))) > 1e-3
    return ok(nontrivial=nt_all and asym and B >= 2, labels=labels, detail={"max_err": worst})


# ------------------------------------------------------------------ generators
def _point(draw, d):
    return [draw(q16(-2, 2)) for _ in range(d)]


def strat_rev():
    from hypothesis import strategies as st

    @st.composite
    def s(draw):
        op = draw(st.sampled_from(["lap", "div", "vlap", "adv", "adv_ns"]))
        time = draw(st.booleans()) if op != "adv_ns" else False
        # dimensions 1..4 most of the time, and 5, 6, 7, 9 (beyond / not a multiple of the block sizes 4 and 8 that a
        # blocked Jacobian or Hessian evaluation would use)
        d = 2 if op in ("adv", "adv_ns") else draw(st.sampled_from([1, 2, 3, 4, 1, 2, 3, 4, 5, 6, 7, 9]))
        case = {"op": op, "time": time}
        if op == "lap":
            m = draw(st.sampled_from([1, 1, 2]))
        elif op == "div":
            m = d
        elif op == "vlap":
            nvec = draw(st.integers(1, 4))
            case["nvec"] = nvec
            case["explicit_n"] = draw(st.booleans())
            m = nvec
        else:
            m = 2
        din = d + (1 if time else 0)
        case["field"] = draw(field_specs(din, m, post=draw(st.sampled_from(["id", "id", "exp"])),
                                         nsin=(1, 2), quad=d <= 4))
        if case["field"]["post"] == "exp" and case["field"]["quad"] is not None:
            # keep exp arguments moderate
            for k in range(m):
                for q in case["field"]["quad"][k]:
                    for i in range(len(q)):
                        q[i] = q[i] / 4
        case["x"] = _point(draw, d)
        case["t"] = draw(q16(0, 1)) if time else 0.0
        case["junk"] = [draw(q16(-2, 2)), draw(q16(-2, 2))]
        return case

    return s()


def _mono_field(din, m, comp, alpha, coef=1.0):
    return {"din": din, "m": m, "post": "id", "sin": [[] for _ in range(m)], "quad": None, "gauss": None,
            "lin": None, "mono": [[[coef, list(alpha)]] if k == comp else [] for k in range(m)]}


POINTS = {1: [0.75], 2: [0.75, -1.25], 3: [0.75, -1.25, 0.5], 4: [0.75, -1.25, 0.5, 1.5]}


def enum_monomials(tier):
    dmax = 2 if tier == "quick" else 4
    for time in (False, True):
        for d in range(1, dmax + 1):
            din = d + (1 if time else 0)
            base = {"time": time, "x": POINTS[d], "t": 0.625, "junk": [0.5, -1.0]}
            for alpha in monomials(din, 3):
                yield dict(base, op="lap", field=_mono_field(din, 1, 0, alpha))
                for comp in range(d):
                    yield dict(base, op="div", field=_mono_field(din, d, comp, alpha))
                for nvec in sorted({1, d, min(4, d + 1)}):
                    for comp in range(nvec):
                        yield dict(base, op="vlap", nvec=nvec, explicit_n=True,
                                   field=_mono_field(din, nvec, comp, alpha))
        # advection: bilinear -> every ordered pair of monomials of degree <= 2
        din = 2 + (1 if time else 0)
        base = {"time": time, "x": POINTS[2], "t": 0.625, "junk": [0.5, -1.0]}
        monos = monomials(din, 2)
        for a0 in monos:
            for a1 in monos:
                f = {"din": din, "m": 2, "post": "id", "sin": [[], []], "quad": None, "gauss": None, "lin": None,
                     "mono": [[[1.0, a0]], [[1.0, a1]]]}
                yield dict(base, op="adv", field=f)
                if not time and tier != "quick":
                    yield dict(base, op="adv_ns", field=f)


def run_mono(case):
    v = run_rev(case)
    if v.ok:
        # for monomials "non-trivial" = the monomial is seen by the operator or by a wrong variant
        F = Field(case["field"])
        z = np.array(([case["t"]] if case["time"] else []) + list(case["x"]))
        want, scale, alts = oracle(case["op"], F, z, case["time"], case.get("nvec"))
        seen = np.max(np.abs(want)) > 0 or any(np.max(np.abs(np.asarray(a))) > 0 for a in alts)
        v.nontrivial = bool(seen)
    return v


def strat_fwd():
    from hypothesis import strategies as st

    @st.composite
    def s(draw):
        op = draw(st.sampled_from(["lap", "div", "adv"]))
        time = draw(st.booleans())
        d = 2 if op == "adv" else draw(st.integers(1, 3))
        if time and d == 3:
            d = 2
        m = {"lap": 1, "div": d, "adv": 2}[op]
        din = d + (1 if time else 0)
        B = draw(st.integers(2, 3))
        case = {"op": op, "time": time, "field": draw(field_specs(din, m, nsin=(1, 2))),
                "junk": [draw(q16(-2, 2))]}
        cols = []
        for _ in range(d):
            col = draw(st.lists(q16(-2, 2), min_size=B, max_size=B, unique=True))
            cols.append(col)
        case["xs"] = [[cols[i][b] for i in range(d)] for b in range(B)]
        case["ts"] = draw(st.lists(q16(0, 1), min_size=B, max_size=B, unique=True)) if time else []
        return case

    return s()


def subchecks():
    return [
        SubCheck(name="rev_monomials_exhaustive", mode="enum", enumerate=enum_monomials, run_case=run_mono,
                 shards={"quick": 8, "thorough": 16}, clear_every=100,
                 doc="every monomial |alpha|<=3 in (t,x_1..x_d), every output component, d<=2 (quick) / d<=4 "
                     "(thorough), +-time; advection: every ordered pair of monomials of degree<=2"),
        SubCheck(name="rev_random_fields", mode="given", strategy=strat_rev, run_case=run_rev,
                 counts={"quick": 160, "thorough": 3200}, shards={"quick": 4, "thorough": 16}, clear_every=100,
                 min_nontrivial_frac=0.3,
                 doc="random trig+quadratic+Gaussian fields (also exp of it), d 1..4, +-time, all reverse-mode operators, "
                     "advection also through NavierStokes2DStatio.evaluate"),
        SubCheck(name="fwd_grid_fields", mode="given", strategy=strat_fwd, run_case=run_fwd,
                 counts={"quick": 60, "thorough": 1200}, shards={"quick": 3, "thorough": 16}, clear_every=60,
                 min_nontrivial_frac=0.2,
                 doc="forward-mode operators (_laplacian_fwd, _div_fwd, _u_dot_nabla_times_u_fwd) on tensor-grid "
                     "callables of the same analytic fields, every grid index compared with the closed form"),
    ]
