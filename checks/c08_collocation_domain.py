"""C08 - collocation points lie in the declared domain, with declared counts and shapes."""
from __future__ import annotations

import math

import numpy as np

from vpkit import SubCheck, fail, ok

PROPERTY = "C08"
LEVEL = "exploration"
RULE = (
    "cases = generator configurations: kind in {ODE, stationary d=1,2,3, space-time d=1,2 (both product modes)}, PRNG "
    "key, box / time interval with negative, non-unit, tiny and large bounds (dyadic), point counts 1..200 (2-D grid: "
    "perfect squares), batch sizes <= counts, nb in 4N (and, 1 case in 2, nb = 4N+1..3: must be refused with ValueError or stored exactly), method uniform / grid, and a history of get_batch calls "
    "spanning 1..3 epochs; run in float32 (library default) and in x64 in separate sub-checks. The grid method is also "
    "enumerated exhaustively over nt,n in 1..120 (quick) / 1..300 (thorough) x 8 intervals. Every requested 2-D border count nb in 1..24 / 1..64 is enumerated too (refused, or exactly nb points). Validity predicate: stored "
    "arrays have exactly the requested leading sizes; every batch has the declared shape; every coordinate lies in the "
    "closed interval (bounds cast to the array dtype); facet k of a border batch has coordinate k//2 equal to min (k "
    "even) / max (k odd), the other coordinate inside the box; the 1-D border is the pair (xmin, xmax). Non-trivial = "
    "box not the unit box and the history contains at least one reshuffle after the first call (enumeration: n >= 2)."
)
ASSUMPTIONS = ["bounds are compared after casting to the dtype of the generated array",
               "grid sampling in 2-D needs a perfect-square n and is not generated for dim >= 3; borders exist for dim <= 2"]


def _key(seed):
    import jax

    return jax.random.PRNGKey(int(seed))


def _inside(a, lo, hi):
    a = np.asarray(a)
    lo = np.asarray(lo, dtype=a.dtype)
    hi = np.asarray(hi, dtype=a.dtype)
    return bool(np.all(a >= lo) and np.all(a <= hi) and np.all(np.isfinite(a)))


def check_store(g, cfg):
    kind, d = cfg["kind"], cfg.get("dim", 0)
    if kind in ("ode", "nonstatio"):
        t = np.asarray(g.times)
        if t.shape != (cfg["nt"],):
            return "stored-time-count", {"shape": list(t.shape), "requested": cfg["nt"], "method": cfg["method"],
                                         "interval": [cfg["tmin"], cfg["tmax"]], "dtype": str(t.dtype)}
        if not _inside(t, cfg["tmin"], cfg["tmax"]):
            return "stored-time-outside-interval", {"min": float(t.min()), "max": float(t.max())}
    if kind in ("statio", "nonstatio"):
        om = np.asarray(g.omega)
        if om.shape != (cfg["n"], d):
            return "stored-point-count", {"shape": list(om.shape), "requested": [cfg["n"], d], "method": cfg["method"],
                                          "box": [cfg["min"], cfg["max"]], "dtype": str(om.dtype)}
        for i in range(d):
            if not _inside(om[:, i], cfg["min"][i], cfg["max"][i]):
                return "stored-point-outside-box", {"axis": i, "min": float(om[:, i].min()), "max": float(om[:, i].max())}
        if cfg["border"]:
            ob = np.asarray(g.omega_border)
            if d == 1:
                want = np.array([cfg["min"][0], cfg["max"][0]], dtype=ob.dtype)
                if ob.shape != (2,) or not np.array_equal(ob, want):
                    return "1d-border-not-the-end-points", {"got": ob.tolist(), "want": want.tolist()}
            else:
                fn = cfg["nb"] // 4
                if ob.shape != (fn, 2, 4) or 4 * ob.shape[0] != cfg["nb"]:
                    return "stored-border-count", {"shape": list(ob.shape), "requested_nb": cfg["nb"],
                                                   "stored_border_points": int(4 * ob.shape[0])}
                r = check_facets(ob, cfg)
                if r:
                    return r
    return None


def check_facets(pts, cfg, off=0):
    """pts (rows, off+2, 4): facet k pins coordinate k//2."""
    for f in range(4):
        axis = f // 2
        bound = np.asarray((cfg["min"] if f % 2 == 0 else cfg["max"])[axis], dtype=pts.dtype)
        col = pts[:, off + axis, f]
        if not np.all(col == bound):
            return "border-point-not-on-its-facet", {"facet": f, "expected_axis": axis, "bound": float(bound),
                                                     "values": col[:4].tolist()}
        other = pts[:, off + 1 - axis, f]
        if not _inside(other, cfg["min"][1 - axis], cfg["max"][1 - axis]):
            return "border-point-outside-box", {"facet": f, "values": other[:4].tolist()}
    return None


def check_batch(batch, cfg):
    kind, d = cfg["kind"], cfg.get("dim", 0)
    if kind == "ode":
        t = np.asarray(batch.temporal_batch)
        if t.shape != (cfg["bt"],):
            return "batch-shape", {"got": list(t.shape), "want": [cfg["bt"]]}
        if not _inside(t, cfg["tmin"], cfg["tmax"]):
            return "batch-time-outside-interval", {"values": t.tolist()}
        return None
    if kind == "statio":
        x = np.asarray(batch.inside_batch)
        if x.shape != (cfg["b"], d):
            return "batch-shape", {"got": list(x.shape), "want": [cfg["b"], d]}
        for i in range(d):
            if not _inside(x[:, i], cfg["min"][i], cfg["max"][i]):
                return "batch-point-outside-box", {"axis": i}
        bb = batch.border_batch
        if not cfg["border"]:
            return None if bb is None else ("border-batch-not-none", {})
        bb = np.asarray(bb)
        if d == 1:
            want = np.array([cfg["min"][0], cfg["max"][0]], dtype=bb.dtype)
            if bb.shape != (1, 1, 2) or not np.array_equal(bb[0, 0], want):
                return "1d-border-batch", {"got": bb.tolist(), "want": want.tolist()}
            return None
        if bb.shape != (cfg["bb"], 2, 4):
            return "batch-shape", {"got": list(bb.shape), "want": [cfg["bb"], 2, 4]}
        return check_facets(bb, cfg)
    # nonstatio
    tx = np.asarray(batch.times_x_inside_batch)
    rows = cfg["bt"] * cfg["b"] if cfg["cartesian"] else cfg["b"]
    if tx.shape != (rows, 1 + d):
        return "batch-shape", {"got": list(tx.shape), "want": [rows, 1 + d]}
    if not _inside(tx[:, 0], cfg["tmin"], cfg["tmax"]):
        return "batch-time-outside-interval", {"values": tx[:4, 0].tolist()}
    for i in range(d):
        if not _inside(tx[:, 1 + i], cfg["min"][i], cfg["max"][i]):
            return "batch-point-outside-box", {"axis": i}
    tb = batch.times_x_border_batch
    if not cfg["border"]:
        return None if tb is None else ("border-batch-not-none", {})
    tb = np.asarray(tb)
    if d == 1:
        if tb.shape != (cfg["bt"], 2, 2):
            return "batch-shape", {"got": list(tb.shape), "want": [cfg["bt"], 2, 2]}
        want = np.array([cfg["min"][0], cfg["max"][0]], dtype=tb.dtype)
        if not np.all(tb[:, 1, :] == want[None, :]):
            return "1d-border-batch", {"got": tb[:, 1, :].tolist(), "want": want.tolist()}
        if not _inside(tb[:, 0, :], cfg["tmin"], cfg["tmax"]):
            return "batch-time-outside-interval", {}
        return None
    rows = cfg["bt"] * cfg["bb"] if cfg["cartesian"] else cfg["bb"]
    if tb.shape != (rows, 3, 4):
        return "batch-shape", {"got": list(tb.shape), "want": [rows, 3, 4]}
    if not _inside(tb[:, 0, :], cfg["tmin"], cfg["tmax"]):
        return "batch-time-outside-interval", {}
    return check_facets(tb, cfg, off=1)


def build(cfg):
    import jinns

    k = _key(cfg["key"])
    kind = cfg["kind"]
    if kind == "ode":
        return jinns.data.DataGeneratorODE(k, cfg["nt"], cfg["tmin"], cfg["tmax"], cfg["bt"], method=cfg["method"])
    d = cfg["dim"]
    common = dict(key=k, n=cfg["n"], nb=cfg["nb"] if cfg["border"] else None, omega_batch_size=cfg["b"],
                  omega_border_batch_size=(cfg["bb"] if cfg["border"] else None), dim=d, min_pts=tuple(cfg["min"]),
                  max_pts=tuple(cfg["max"]), method=cfg["method"])
    if kind == "statio":
        return jinns.data.CubicMeshPDEStatio(**common)
    return jinns.data.CubicMeshPDENonStatio(nt=cfg["nt"], temporal_batch_size=cfg["bt"], tmin=cfg["tmin"], tmax=cfg["tmax"],
                                            cartesian_product=cfg["cartesian"], **common)


def run_case(case):
    cfg = case["cfg"]
    labels = [cfg["kind"], cfg["method"], f"d{cfg.get('dim', 0)}"]
    odd_nb = cfg["kind"] != "ode" and cfg.get("dim") == 2 and cfg.get("border") and cfg["nb"] % 4 != 0
    if odd_nb:
        # a border count that cannot be spread evenly over the 4 facets: either refused (ValueError) or stored exactly
        try:
            g = build(cfg)
        except ValueError:
            return ok(nontrivial=False, labels=labels + ["nb-not-multiple-of-4:refused"])
        labels.append("nb-not-multiple-of-4:accepted")
    else:
        g = build(cfg)
    r = check_store(g, cfg)
    if r:
        return fail(r[0], dict(r[1], cfg=cfg["kind"]), labels=labels)
    reshuffles = 0
    prev = _order(g)
    for i in range(cfg["calls"]):
        g, batch = g.get_batch()
        r = check_batch(batch, cfg) or check_store(g, cfg)
        if r:
            return fail(r[0], dict(r[1], call=i + 1), labels=labels)
        cur = _order(g)
        if i > 0 and cur != prev:
            reshuffles += 1
        prev = cur
    unit = cfg.get("min") in ([0.0], [0.0, 0.0], [0.0, 0.0, 0.0]) and all(v == 1.0 for v in cfg.get("max", [])) \
        or (cfg["kind"] == "ode" and (cfg["tmin"], cfg["tmax"]) == (0.0, 1.0))
    return ok(nontrivial=(not unit) and reshuffles >= 1, labels=labels, detail={"reshuffles": reshuffles})


def _order(g):
    out = []
    for name in ("times", "omega", "omega_border"):
        v = getattr(g, name, None)
        if v is not None:
            out.append(np.asarray(v).tobytes())
    return out


def strat():
    from hypothesis import strategies as st

    bound = st.sampled_from([-100.0, -3.5, -1.0, -0.25, 0.0, 0.125, 1.0, 2.75, 40.0])
    width = st.sampled_from([0.0078125, 0.25, 0.5, 1.0, 1.5, 3.0, 10.0, 1000.0])

    @st.composite
    def s(draw):
        kind = draw(st.sampled_from(["ode", "statio", "nonstatio"]))
        method = draw(st.sampled_from(["uniform", "grid"]))
        cfg = {"kind": kind, "method": method, "key": draw(st.integers(0, 2**31 - 1))}
        if kind in ("ode", "nonstatio"):
            cfg["tmin"] = draw(bound)
            cfg["tmax"] = cfg["tmin"] + draw(width)
            cfg["nt"] = draw(st.integers(1, 200))
            cfg["bt"] = draw(st.integers(1, min(cfg["nt"], 12)))
        if kind != "ode":
            d = draw(st.sampled_from([1, 2, 3] if kind == "statio" else [1, 2]))
            if d == 3:
                cfg["method"] = "uniform"
            cfg["dim"] = d
            cfg["min"] = [draw(bound) for _ in range(d)]
            cfg["max"] = [cfg["min"][i] + draw(width) for i in range(d)]
            n = draw(st.integers(1, 200))
            if cfg["method"] == "grid" and d == 2:
                n = draw(st.integers(1, 14)) ** 2
            cfg["n"] = n
            cfg["b"] = draw(st.integers(1, min(n, 12)))
            cfg["border"] = d <= 2 and draw(st.booleans())
            fn = draw(st.integers(1, 10))
            cfg["nb"] = (4 * fn + draw(st.sampled_from([0, 0, 0, 1, 2, 3]))) if d == 2 else 2
            cfg["bb"] = draw(st.integers(1, fn)) if d == 2 else 2
            if kind == "nonstatio":
                cfg["cartesian"] = draw(st.booleans())
                if not cfg["cartesian"]:
                    m = min(cfg["nt"], cfg["n"], fn if (d == 2 and cfg["border"]) else 10**6, 12)
                    b = draw(st.integers(1, m))
                    cfg["b"] = cfg["bt"] = b
                    if d == 2:
                        cfg["bb"] = b
        # history: 1..3 epochs of the smallest store
        per = [math.ceil(cfg["nt"] / cfg["bt"])] if "nt" in cfg else []
        if kind != "ode":
            per.append(math.ceil(cfg["n"] / cfg["b"]))
        cfg["calls"] = min(draw(st.integers(1, 3)) * min(per) + 1, 30)
        return {"cfg": cfg}

    return s()


INTERVALS = [(0.0, 1.0), (-1.0, 1.0), (-3.5, -3.0), (0.125, 10.125), (0.0, 0.0078125), (-100.0, 900.0), (2.75, 4.25), (-0.25, 0.75)]


def enum_grid(tier):
    nmax = 120 if tier == "quick" else 300
    for (lo, hi) in INTERVALS:
        for blk in range(0, nmax, 30):
            yield {"lo": lo, "hi": hi, "ns": list(range(blk + 1, min(blk + 30, nmax) + 1))}


def run_grid(case):
    """Exhaustive count check of the grid method (times, 1-D points, parameters) for a block of n."""
    import jax
    import jinns

    lo, hi = case["lo"], case["hi"]
    k = jax.random.PRNGKey(0)
    for n in case["ns"]:
        g = jinns.data.DataGeneratorODE(k, n, lo, hi, 1, method="grid")
        t = np.asarray(g.times)
        if t.shape != (n,):
            return fail("stored-time-count", {"shape": list(t.shape), "requested": n, "method": "grid", "interval": [lo, hi],
                                              "dtype": str(t.dtype)}, labels=["grid-ode"])
        if not _inside(t, lo, hi):
            return fail("stored-time-outside-interval", {"n": n, "interval": [lo, hi]}, labels=["grid-ode"])
        g = jinns.data.CubicMeshPDEStatio(key=k, n=n, nb=None, omega_batch_size=1, omega_border_batch_size=None, dim=1,
                                          min_pts=(lo,), max_pts=(hi,), method="grid")
        om = np.asarray(g.omega)
        if om.shape != (n, 1):
            return fail("stored-point-count", {"shape": list(om.shape), "requested": [n, 1], "method": "grid", "box": [lo, hi],
                                               "dtype": str(om.dtype)}, labels=["grid-statio1d"])
        if not _inside(om, lo, hi):
            return fail("stored-point-outside-box", {"n": n}, labels=["grid-statio1d"])
        r = int(round(math.sqrt(n)))
        if r * r == n:
            g = jinns.data.CubicMeshPDEStatio(key=k, n=n, nb=None, omega_batch_size=1, omega_border_batch_size=None, dim=2,
                                              min_pts=(lo, lo), max_pts=(hi, hi), method="grid")
            om = np.asarray(g.omega)
            if om.shape != (n, 2):
                return fail("stored-point-count", {"shape": list(om.shape), "requested": [n, 2], "method": "grid"},
                            labels=["grid-statio2d"])
    return ok(nontrivial=True, labels=["grid-block"], count=len(case["ns"]))


def enum_border_counts(tier):
    nmax = 24 if tier == "quick" else 64
    for kind in ("statio", "nonstatio"):
        for method in ("uniform", "grid"):
            for blk in range(0, nmax, 8):
                yield {"kind": kind, "method": method, "nbs": list(range(blk + 1, blk + 9))}


def run_border_counts(case):
    """Every requested 2-D border count nb: refused with ValueError, or exactly nb border points stored and served."""
    import jax
    import jinns

    k = jax.random.PRNGKey(3)
    accepted = 0
    for nb in case["nbs"]:
        kw = dict(key=k, n=9, nb=nb, omega_batch_size=3, omega_border_batch_size=1, dim=2, min_pts=(-1.0, 0.5), max_pts=(2.0, 0.75),
                  method=case["method"])
        try:
            if case["kind"] == "statio":
                g = jinns.data.CubicMeshPDEStatio(**kw)
            else:
                g = jinns.data.CubicMeshPDENonStatio(nt=4, temporal_batch_size=1, tmin=0.0, tmax=1.0, **kw)
        except ValueError:
            continue
        accepted += 1
        ob = np.asarray(g.omega_border)
        if ob.ndim != 3 or ob.shape[1:] != (2, 4) or 4 * ob.shape[0] != nb:
            return fail("stored-border-count", {"shape": list(ob.shape), "requested_nb": nb, "kind": case["kind"],
                                                "method": case["method"]}, labels=["border-count"])
    return ok(nontrivial=True, labels=["border-count-block", f"accepted-{accepted}"], count=len(case["nbs"]))


def _mk(x64):
    suf = "x64" if x64 else "f32"
    return [
        SubCheck(name=f"domain_counts_shapes_{suf}", mode="given", strategy=strat, run_case=run_case, x64=x64,
                 counts={"quick": 150, "thorough": 12000}, shards={"quick": 4, "thorough": 16}, clear_every=12,
                 min_nontrivial_frac=0.3,
                 doc=f"random generator configurations and get_batch histories ({suf})"),
        SubCheck(name=f"grid_counts_exhaustive_{suf}", mode="enum", enumerate=enum_grid, run_case=run_grid, x64=x64,
                 shards={"quick": 4, "thorough": 8}, clear_every=8,
                 doc=f"grid method: every n in 1..120 (quick) / 1..300 (thorough) on 8 intervals ({suf})"),
    ]


def subchecks():
    return _mk(False) + _mk(True) + [
        SubCheck(name="border_count_refused_or_exact", mode="enum", enumerate=enum_border_counts, run_case=run_border_counts,
                 x64=False, shards={"quick": 4, "thorough": 8}, clear_every=8,
                 doc="every requested 2-D border count 1..24 (quick) / 1..64 (thorough): refused with ValueError or stored exactly"),
    ]
