"""C14 - space-time batches are exact cartesian products (or exact pairings)."""
from __future__ import annotations

import numpy as np

from vpkit import SubCheck, fail, ok

PROPERTY = "C14"
LEVEL = "exploration"
RULE = (
    "cases = CubicMeshPDENonStatio configurations: dim 1 and 2, temporal / spatial / border batch sizes 1..5 (equal when "
    "the cartesian option is off), both product modes, PRNG key, store sizes, histories of 1..6 get_batch calls. "
    "Oracle (a) structural: the interior batch reshaped to (nt_b, nx_b, 1+d) has column 0 constant along axis 1, "
    "columns 1.. identical along axis 0, every t a stored time and every x a stored point, exactly nt_b*nx_b rows, "
    "time-major; every border facet likewise with the same time column on every facet; pairing mode: row i = (t_i, x_i); "
    "(b) differential: the factors obtained from the same generator state by inside_batch(), border_batch(), "
    "temporal_batch() reproduce the batch exactly. Non-trivial = nt_b >= 2, nx_b >= 2 and nt_b != nx_b (cartesian) / "
    "batch >= 2 (pairing), so that swapped factors are visible."
)
ASSUMPTIONS = ["stores are uniform samples (distinct with probability 1; x64)"]


def build(cfg):
    import jax
    import jinns

    d = cfg["dim"]
    return jinns.data.CubicMeshPDENonStatio(
        key=jax.random.PRNGKey(cfg["key"]), n=cfg["n"], nb=4 * cfg["fn"] if d == 2 else 2, nt=cfg["nt"],
        omega_batch_size=cfg["bx"], omega_border_batch_size=(cfg["bb"] if d == 2 else 2) if cfg["border"] else None,
        temporal_batch_size=cfg["bt"], dim=d, min_pts=(-1.5, 0.5)[:d], max_pts=(2.25, 3.0)[:d], tmin=0.25, tmax=1.75,
        cartesian_product=cfg["cartesian"])


def run_case(case):
    cfg = case["cfg"]
    d = cfg["dim"]
    g = build(cfg)
    labels = [f"d{d}", "cartesian" if cfg["cartesian"] else "paired", "border" if cfg["border"] else "no-border"]
    bt, bx, bb = cfg["bt"], cfg["bx"], (cfg["bb"] if d == 2 else 1)
    for call in range(cfg["calls"]):
        # factors from the same state (the methods are pure: C20)
        g1, x = g.inside_batch()
        g2, dx = g1.border_batch()
        g3, t = g2.temporal_batch()
        x, t = np.asarray(x), np.asarray(t)
        g, batch = g.get_batch()
        tx = np.asarray(batch.times_x_inside_batch)
        times, omega = np.asarray(g.times), np.asarray(g.omega)
        if cfg["cartesian"]:
            if tx.shape != (bt * bx, 1 + d):
                return fail("interior-shape", {"got": list(tx.shape), "want": [bt * bx, 1 + d]}, labels=labels)
            cube = tx.reshape(bt, bx, 1 + d)
            if not np.all(cube[:, :, 0] == cube[:, :1, 0]):
                return fail("interior-not-time-major-product", {"call": call, "times_column": tx[:, 0].tolist()}, labels=labels)
            if not np.all(cube[:, :, 1:] == cube[:1, :, 1:]):
                return fail("interior-space-not-tiled", {"call": call}, labels=labels)
            want = np.array([[tt] + list(xx) for tt in t for xx in x])
            if not np.array_equal(tx, want):
                return fail("interior-differs-from-product-of-factors", {"call": call, "got": tx.tolist(), "want": want.tolist()},
                            labels=labels)
            ts, xs = cube[:, 0, 0], cube[0, :, 1:]
        else:
            if tx.shape != (bx, 1 + d):
                return fail("interior-shape", {"got": list(tx.shape), "want": [bx, 1 + d]}, labels=labels)
            want = np.concatenate([t[:, None], x], axis=1)
            if not np.array_equal(tx, want):
                return fail("interior-differs-from-pairing-of-factors", {"call": call}, labels=labels)
            ts, xs = tx[:, 0], tx[:, 1:]
        if not all(np.any(times == v) for v in ts):
            return fail("batch-time-not-a-stored-time", {"call": call}, labels=labels)
        if not all(np.any(np.all(omega == v[None, :], axis=1)) for v in xs):
            return fail("batch-point-not-a-stored-point", {"call": call}, labels=labels)
        if len(set(ts.tolist())) != len(ts) or len({tuple(v) for v in xs.tolist()}) != len(xs):
            return fail("batch-factor-has-duplicates", {"call": call}, labels=labels)
        tb = batch.times_x_border_batch
        if cfg["border"]:
            tb = np.asarray(tb)
            dx = np.asarray(dx)  # (bb, d, F) or (1,1,2)
            F = 2 * d
            if cfg["cartesian"] or d == 1:
                if tb.shape != (bt * bb, 1 + d, F):
                    return fail("border-shape", {"got": list(tb.shape), "want": [bt * bb, 1 + d, F]}, labels=labels)
                for f in range(F):
                    want = np.array([[tt] + list(dx[i, :, f]) for tt in t for i in range(bb)])
                    if not np.array_equal(tb[:, :, f], want):
                        return fail("border-facet-differs-from-product-of-factors", {"call": call, "facet": f,
                                                                                     "got": tb[:, :, f].tolist(), "want": want.tolist()},
                                    labels=labels)
            else:
                if tb.shape != (bb, 1 + d, F):
                    return fail("border-shape", {"got": list(tb.shape), "want": [bb, 1 + d, F]}, labels=labels)
                for f in range(F):
                    want = np.concatenate([t[:, None], dx[:, :, f]], axis=1)
                    if not np.array_equal(tb[:, :, f], want):
                        return fail("border-facet-differs-from-pairing-of-factors", {"call": call, "facet": f}, labels=labels)
            if not np.all(tb[:, 0, :] == tb[:, 0, :1]):
                return fail("border-time-column-differs-between-facets", {"call": call}, labels=labels)
        elif tb is not None:
            return fail("border-batch-not-none", {}, labels=labels)
    nt = (bt >= 2 and bx >= 2 and bt != bx) if cfg["cartesian"] else bx >= 2
    return ok(nontrivial=nt, labels=labels, detail={"bt": bt, "bx": bx, "bb": bb})


def strat():
    from hypothesis import strategies as st

    @st.composite
    def s(draw):
        d = draw(st.sampled_from([1, 2]))
        cart = draw(st.booleans())
        bt = draw(st.integers(1, 5))
        bx = draw(st.integers(1, 5)) if cart else bt
        bb = draw(st.integers(1, 5)) if cart else bt
        cfg = {"dim": d, "cartesian": cart, "bt": bt, "bx": bx, "bb": bb, "border": draw(st.booleans()),
               "nt": bt + draw(st.integers(0, 6)), "n": bx + draw(st.integers(0, 6)), "fn": bb + draw(st.integers(0, 4)),
               "key": draw(st.integers(0, 2**31 - 1)), "calls": draw(st.integers(1, 6))}
        return {"cfg": cfg}

    return s()


def subchecks():
    return [
        SubCheck(name="products_and_pairings", mode="given", strategy=strat, run_case=run_case,
                 counts={"quick": 200, "thorough": 20000}, shards={"quick": 4, "thorough": 16}, clear_every=25,
                 min_nontrivial_frac=0.3,
                 doc="interior and per-facet border space-time batches vs product / pairing of the factors drawn from the same state"),
    ]
