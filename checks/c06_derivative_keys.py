"""C06 - derivative keys route each term's gradient to exactly the selected parameter groups."""
from __future__ import annotations

import itertools

import numpy as np

from vpkit import SubCheck, fail, ok
from vpkit.problems import build_single

PROPERTY = "C06"
LEVEL = "exploration"
RULE = (
    "groups = {nn_params, theta, phi} (network output depends on both equation parameters through the output transform, "
    "so every (term, group) reference block is non-zero); terms = 3 (ODE), 4 (stationary), 5 (non-stationary), all "
    "configured. The finite space of {selected, not selected}^(terms x groups) is enumerated under one compiled "
    "gradient function per case (masks are boolean leaves of the loss pytree): 2^9 (ODE) and 2^12 (stationary) "
    "completely, 2^15 (non-stationary) completely in the thorough tier and 4 blocks of 1024 in the quick tier; each "
    "case is a block of consecutive mask integers. Oracle: gradient of the total w.r.t. a group == sum over selected "
    "terms of the reference block d term/d group (obtained with everything selected, cross-checked by central finite "
    "differences of the term values for the scalar parameters); unselected pairs contribute exactly zero (checked "
    "per term); loss values bitwise independent of the mask; string form == boolean tree form; default == nn only. "
    "Eager evaluation is sampled. The per-unknown terms of a 2-unknown SystemLossODE (2 unknowns x 2 terms x 3 groups = 2^12 masks) are enumerated the same way against additive reference blocks. Non-trivial = all reference blocks non-zero (>1e-6) and, for a given group, pairwise "
    "distinct across terms. distinct_nontrivial counts distinct mask assignments."
)
ASSUMPTIONS = ["jax.grad of the library's own loss with every block selected is the reference for the blocks; it is "
               "cross-checked by finite differences of term values (values do not depend on masks - asserted bitwise)",
               "tolerance 1e-9 relative to the sum of |blocks| in x64"]

TERMS = {"ode": ["dyn_loss", "initial_condition", "observations"],
         "statio": ["dyn_loss", "norm_loss", "boundary_loss", "observations"],
         "nonstatio": ["dyn_loss", "norm_loss", "boundary_loss", "observations", "initial_condition"]}
GROUPS = ["nn_params", "theta", "phi"]


def det_spec(kind, variant):
    """Deterministic loss spec with every term configured (pure function of (kind, variant))."""
    r = np.random.RandomState(1000 + 17 * variant + {"ode": 0, "statio": 1, "nonstatio": 2}[kind])
    q = lambda lo, hi: float(np.round(r.uniform(lo, hi) * 16) / 16)
    nz = lambda lo, hi: (q(lo, hi) or 0.5)
    d = 0 if kind == "ode" else (1 + variant % 2)
    din = d + (0 if kind == "statio" else 1)
    m = 1
    field = {"din": din, "m": m, "post": "id", "mono": None, "lin": None,
             "sin": [[[nz(0.5, 2), q(-1, 1), [nz(0.5, 1.5) for _ in range(din)]],
                      [nz(-2, -0.5), q(-1, 1), [nz(-1.5, -0.5) for _ in range(din)]]]],
             "quad": [[[q(-0.5, 0.5) for _ in range(din)] for _ in range(din)]],
             "gauss": [[nz(0.5, 1.5), 1.5, [q(-0.5, 0.5) for _ in range(din)]]]}
    spec = {"kind": kind, "dim": d, "net": {"field": field, "transform": "affine"},
            "eq_params": {"theta": nz(0.75, 1.75), "phi": nz(0.25, 1.0)}, "hetero": None, "param_batch": None,
            "box": {"min": [-1.0] * max(d, 1), "max": [1.5] * max(d, 1)}}
    spec["eq"] = {"coef": [[nz(0.5, 1.5), nz(0.5, 1.5), q(-1, 1), nz(0.5, 1), nz(0.25, 1), q(-1, 1), nz(0.5, 1), nz(0.5, 1)]]}
    if kind == "ode" and variant >= 10:
        # variants >= 10: the batch also carries a per-sample batch of a 4th equation parameter (not one of the groups):
        # the loss then takes its vmapped code paths. pnames sorted: kappa, phi, theta
        spec["eq_params"]["kappa"] = 0.5
        spec["eq"]["coef"][0] = spec["eq"]["coef"][0][:6] + [nz(0.5, 1)] + spec["eq"]["coef"][0][6:]
        spec["param_batch"] = {"kappa": [0.25, 0.75, 1.25, 1.75]}
    w = {"dyn_loss": nz(0.5, 2), "observations": nz(0.5, 2)}
    if kind == "ode":
        spec["batch"] = {"t": [0.125, 0.5, 0.875, 1.25]}
        spec["ic"] = {"t0": 0.0, "u0": nz(0.5, 1.5)}
        w["initial_condition"] = nz(0.5, 2)
        N = 4
    elif kind == "statio":
        spec["batch"] = {"x": [[q(-1, 1.5) for _ in range(d)] for _ in range(3)]}
        N = 3
    else:
        spec["batch"] = {"t": [0.25, 0.75], "x": [[q(-1, 1.5) for _ in range(d)] for _ in range(2)], "cartesian": True}
        spec["ic"] = {"a": [nz(0.5, 1.5)], "b": nz(0.5, 1.5), "c": [q(-1, 1)], "ret": "one"}
        w["initial_condition"] = nz(0.5, 2)
        N = 4
    if kind != "ode":
        if d == 2:
            spec["batch"]["border"] = [[q(-1, 1.5), q(-1, 1.5)] for _ in range(4)]
        spec["boundary"] = {"cond": "neumann" if variant % 2 else "dirichlet",
                            "f": {"a": [nz(0.5, 1.5)], "b": nz(0.5, 1.5), "c": q(-1, 1), "e": nz(0.5, 1), "ret": "one"},
                            "dim": None}
        spec["norm"] = {"samples": [[q(-1, 1.5) for _ in range(d)] for _ in range(4)], "L": 2.5}
        w["boundary_loss"] = nz(0.5, 2)
        w["norm_loss"] = nz(0.5, 2)
    spec["obs"] = {"pinn_in": [[q(-1, 1.5) for _ in range(din)] for _ in range(N)],
                   "val": [[q(-1, 1)] for _ in range(N)], "obs_slice": None, "eq_params": {}}
    spec["w"] = w
    return spec


def _dk_class(kind):
    import jinns

    return {"ode": jinns.parameters.DerivativeKeysODE, "statio": jinns.parameters.DerivativeKeysPDEStatio,
            "nonstatio": jinns.parameters.DerivativeKeysPDENonStatio}[kind]


def mask_bits(kind, mi):
    """mask integer -> dict term -> dict group -> bool."""
    terms = TERMS[kind]
    out = {}
    b = 0
    for t in terms:
        out[t] = {}
        for g in GROUPS:
            out[t][g] = bool((mi >> b) & 1)
            b += 1
    return out


def make_dk(kind, bits, as_arrays=True, extra_keys=()):
    import jax.numpy as jnp
    import jinns

    conv = (lambda v: jnp.asarray(v)) if as_arrays else (lambda v: bool(v))
    kw = {}
    for t, gb in bits.items():
        eqm = {"theta": conv(gb["theta"]), "phi": conv(gb["phi"])}
        if extra_keys:
            eqm.update({k: conv(False) for k in extra_keys})
        kw[t] = jinns.parameters.Params(nn_params=conv(gb["nn_params"]), eq_params=eqm)
    return _dk_class(kind)(**kw)


def _flat(g):
    """gradient Params -> dict group -> 1-D numpy array."""
    import jax

    nn = np.concatenate([np.asarray(l, dtype=np.float64).ravel() for l in jax.tree_util.tree_leaves(g.nn_params)])
    return {"nn_params": nn, "theta": np.asarray(g.eq_params["theta"], dtype=np.float64).ravel(),
            "phi": np.asarray(g.eq_params["phi"], dtype=np.float64).ravel()}


def run_block(case):
    import equinox as eqx
    import jax

    kind, spec = case["kind"], case["spec"]
    terms = TERMS[kind]
    nbits = len(terms) * len(GROUPS)
    all_on = mask_bits(kind, (1 << nbits) - 1)
    extra = tuple(k for k in spec["eq_params"] if k not in ("theta", "phi"))
    loss, params, batch = build_single(spec, derivative_keys=make_dk(kind, all_on, extra_keys=extra))
    labels = [kind, case["mode"]] + (["param-batch"] if spec.get("param_batch") else [])

    def f_all(l, p, b):
        def tot(pp):
            total, tdict = l.evaluate(pp, b)
            return total, (total, tdict)

        g, (total, tdict) = jax.grad(tot, has_aux=True)(p)
        return g, total, tdict

    def f_term(l, p, b, name):
        return jax.grad(lambda pp: l.evaluate(pp, b)[1][name])(p)

    jit_all = jax.jit(f_all) if case["mode"] == "jit" else f_all
    # ---- reference blocks (everything selected)
    blocks = {}
    for t in terms:
        blocks[t] = _flat(f_term(loss, params, batch, t))
    g0, total0, tdict0 = jit_all(loss, params, batch)
    vals0 = {k: np.asarray(v) for k, v in tdict0.items()}
    # finite-difference cross-check of the scalar-parameter blocks
    import jax.numpy as jnp

    for gname in ("theta", "phi"):
        h = 1e-5
        for sgn, store in ((+1, "p"), (-1, "m")):
            pass
        pp = eqx.tree_at(lambda p: p.eq_params[gname], params, params.eq_params[gname] + h)
        pm = eqx.tree_at(lambda p: p.eq_params[gname], params, params.eq_params[gname] - h)
        tp, tm = loss.evaluate(pp, batch)[1], loss.evaluate(pm, batch)[1]
        for t in terms:
            fd = (float(tp[t]) - float(tm[t])) / (2 * h)
            ref = float(blocks[t][gname][0])
            if not abs(fd - ref) <= 1e-5 * (1 + abs(ref)):
                return fail("reference-block-disagrees-with-finite-differences", {"term": t, "group": gname, "fd": fd, "ad": ref},
                            labels=labels)
    nz = all(np.max(np.abs(blocks[t][g])) > 1e-6 for t in terms for g in GROUPS)
    distinct = all(np.max(np.abs(blocks[a][g] - blocks[b][g])) > 1e-6
                   for g in GROUPS for i, a in enumerate(terms) for b in terms[i + 1:])
    scale = {g: sum(np.abs(blocks[t][g]) for t in terms) for g in GROUPS}
    start, count = case["block"]
    stride = case.get("stride", 1)
    checked = 0
    for mi in range(start, start + count * stride, stride):
        bits = mask_bits(kind, mi)
        l2 = eqx.tree_at(lambda l: l.derivative_keys, loss, make_dk(kind, bits, extra_keys=extra))
        g, total, tdict = jit_all(l2, params, batch)
        if not (np.array_equal(np.asarray(total), np.asarray(total0)) and
                all(np.array_equal(np.asarray(tdict[k]), vals0[k]) for k in vals0)):
            return fail("loss-value-depends-on-derivative-keys", {"mask": mi, "total": float(total), "total_all": float(total0)},
                        labels=labels)
        gf = _flat(g)
        for gname in GROUPS:
            want = sum((blocks[t][gname] if bits[t][gname] else 0.0 * blocks[t][gname]) for t in terms)
            err = float(np.max(np.abs(gf[gname] - want)))
            if not err <= 1e-9 * (1 + float(np.max(scale[gname]))):
                sel = [t for t in terms if bits[t][gname]]
                return fail(f"gradient-routing:{kind}:{gname}", {"mask": mi, "group": gname, "selected_terms": sel,
                                                                 "got": gf[gname][:4].tolist(), "want": np.asarray(want)[:4].tolist(),
                                                                 "err": err}, labels=labels)
            if not any(bits[t][gname] for t in terms) and np.any(gf[gname] != 0.0):
                return fail(f"unselected-group-not-exactly-zero:{gname}", {"mask": mi, "got": gf[gname][:4].tolist()}, labels=labels)
        checked += 1
    # ---- per-term gradients on a few masks of the block (a compensation between terms cannot hide a mis-routed block)
    for mi in list(range(start, start + count * stride, stride))[:: max(1, count // 6)][:6]:
        bits = mask_bits(kind, mi)
        l2 = eqx.tree_at(lambda l: l.derivative_keys, loss, make_dk(kind, bits, extra_keys=extra))
        for t in terms:
            gt = _flat(f_term(l2, params, batch, t))
            for gname in GROUPS:
                if bits[t][gname]:
                    if not np.max(np.abs(gt[gname] - blocks[t][gname])) <= 1e-9 * (1 + float(np.max(scale[gname]))):
                        return fail(f"per-term-gradient:{t}:{gname}", {"mask": mi}, labels=labels)
                elif np.any(gt[gname] != 0.0):
                    return fail(f"unselected-pair-not-exactly-zero:{t}:{gname}", {"mask": mi, "got": gt[gname][:4].tolist()},
                                labels=labels)
    return ok(nontrivial=nz and distinct, labels=labels, count=checked,
              detail={"masks": [start, count, stride], "blocks_max": {t: {g: float(np.max(np.abs(blocks[t][g]))) for g in GROUPS}
                                                                       for t in terms}})


def enum_blocks(tier):
    variants = [0, 1] if tier == "quick" else [0, 1, 2]
    for v in variants:
        yield {"kind": "ode", "spec": det_spec("ode", v), "block": [0, 512], "mode": "jit"}
        yield {"kind": "ode", "spec": det_spec("ode", 10 + v), "block": [0, 512], "mode": "jit"}
    for v in variants[: (1 if tier == "quick" else 3)]:
        for b in range(4):
            yield {"kind": "statio", "spec": det_spec("statio", v), "block": [1024 * b, 1024], "mode": "jit"}
    if tier == "quick":
        # 4 blocks of 1024 spread over the 2^15 space (stride 8 covers every bit position)
        for b in range(4):
            yield {"kind": "nonstatio", "spec": det_spec("nonstatio", b % 2), "block": [b, 1024], "stride": 31, "mode": "jit"}
    else:
        for v in variants:
            for b in range(32):
                yield {"kind": "nonstatio", "spec": det_spec("nonstatio", v), "block": [1024 * b, 1024], "mode": "jit"}


def strat_eager():
    from hypothesis import strategies as st

    @st.composite
    def s(draw):
        kind = draw(st.sampled_from(["ode", "statio", "nonstatio"]))
        nbits = len(TERMS[kind]) * 3
        return {"kind": kind, "spec": det_spec(kind, draw(st.integers(0, 5)) + (10 if kind == "ode" and draw(st.booleans()) else 0)),
                "block": [draw(st.integers(0, (1 << nbits) - 3)), 3], "mode": "eager"}

    return s()


# ---- string form / default ------------------------------------------------------------------
def run_strings(case):
    import jax
    import jinns

    kind, spec = case["kind"], case["spec"]
    terms = TERMS[kind]
    labels = [kind, "strings"]
    loss, params, batch = build_single(spec)  # derivative_keys=None -> default
    DK = _dk_class(kind)
    strs = case["strings"]  # one of nn_params/eq_params/both/tree per term
    kw, want = {}, {}
    for t, sv in zip(terms, strs):
        if sv == "tree":
            bits = {"nn_params": True, "theta": False, "phi": True}
            kw[t] = jinns.parameters.Params(nn_params=True, eq_params={"theta": False, "phi": True})
        elif sv == "omitted":
            bits = {"nn_params": True, "theta": False, "phi": False}
        else:
            bits = {"nn_params": sv in ("nn_params", "both"), "theta": sv in ("eq_params", "both"),
                    "phi": sv in ("eq_params", "both")}
            kw[t] = sv
        want[t] = bits
    dk = DK.from_str(params=params, **kw)
    for t in terms:
        msk = getattr(dk, t)
        got = {"nn_params": bool(msk.nn_params), "theta": bool(msk.eq_params["theta"]), "phi": bool(msk.eq_params["phi"])}
        if got != want[t]:
            return fail("string-form-differs-from-tree-form", {"term": t, "string": strs, "got": got, "want": want[t]},
                        labels=labels)
    # default of the loss object itself
    for t in terms:
        msk = getattr(loss.derivative_keys, t)
        got = {"nn_params": bool(msk.nn_params), "theta": bool(msk.eq_params["theta"]), "phi": bool(msk.eq_params["phi"])}
        if got != {"nn_params": True, "theta": False, "phi": False}:
            return fail("default-is-not-nn-params-only", {"term": t, "got": got}, labels=labels)
    # gradients: string-built keys == tree-built keys
    l_str, _, _ = build_single(spec, derivative_keys=dk)
    l_tree, _, _ = build_single(spec, derivative_keys=make_dk(kind, want, as_arrays=False))
    gs = _flat(jax.grad(lambda p: l_str.evaluate(p, batch)[0])(params))
    gt = _flat(jax.grad(lambda p: l_tree.evaluate(p, batch)[0])(params))
    for g in GROUPS:
        if not np.array_equal(gs[g], gt[g]):
            return fail("string-and-tree-gradients-differ", {"group": g}, labels=labels)
    # default gradient: eq params exactly zero, nn non-zero
    gd = _flat(jax.grad(lambda p: loss.evaluate(p, batch)[0])(params))
    if np.any(gd["theta"] != 0) or np.any(gd["phi"] != 0) or not np.any(gd["nn_params"] != 0):
        return fail("default-gradient-not-nn-only", {k: v[:3].tolist() for k, v in gd.items()}, labels=labels)
    return ok(nontrivial=len(set(strs)) > 1, labels=labels)


def enum_strings(tier):
    opts = ["nn_params", "eq_params", "both", "tree", "omitted"]
    for kind in ("ode", "statio", "nonstatio"):
        T = len(TERMS[kind])
        combos = list(itertools.product(opts, repeat=T))
        step = 1 if tier == "thorough" else {"ode": 7, "statio": 31, "nonstatio": 151}[kind]
        for i, c in enumerate(combos):
            if i % step == 0:
                yield {"kind": kind, "spec": det_spec(kind, i % 2), "strings": list(c)}


def subchecks():
    return [
        SubCheck(name="mask_space_exhaustive_jit", mode="enum", enumerate=enum_blocks, run_case=run_block,
                 shards={"quick": 8, "thorough": 16}, clear_every=4,
                 exhaustive={"quick": False, "thorough": True}, doc="every assignment of the (term x group) mask product under one compiled gradient per case"),
        SubCheck(name="mask_sample_eager", mode="given", strategy=strat_eager, run_case=run_block,
                 counts={"quick": 16, "thorough": 480}, shards={"quick": 4, "thorough": 16}, clear_every=4,
                 doc="random mask assignments evaluated eagerly (no jit)"),
        SubCheck(name="string_tree_default_equivalence", mode="enum", enumerate=enum_strings, run_case=run_strings,
                 shards={"quick": 4, "thorough": 16}, clear_every=10,
                 exhaustive={"quick": False, "thorough": True}, doc="from_str strings vs boolean trees vs omitted terms (default nn_params), masks and gradients"),
    ]


# ---- per-unknown terms of a system loss ------------------------------------------------------------
SYS_UNKNOWNS = ["u", "v"]
SYS_TERMS = ["initial_condition", "observations"]


def det_sys_spec(variant):
    r = np.random.RandomState(500 + variant)
    q = lambda lo, hi: float(np.round(r.uniform(lo, hi) * 16) / 16) or 0.5
    fld = lambda: {"din": 1, "m": 1, "post": "id", "mono": None, "lin": None, "gauss": None,
                   "quad": [[[q(-0.5, 0.5)]]], "sin": [[[q(0.5, 2), q(-1, 1), [q(0.5, 1.5)]], [q(-2, -0.5), q(-1, 1), [q(-1.5, -0.5)]]]]}
    spec = {"kind": "ode", "dim": 0, "hetero": None, "param_batch": None, "box": {"min": [0.0], "max": [1.0]},
            "unknowns": {n: {"field": fld(), "transform": "affine"} for n in SYS_UNKNOWNS},
            "eq_params": {"theta": q(0.75, 1.75), "phi": q(0.25, 1.0)},
            "batch": {"t": [0.125, 0.5, 0.875]},
            "ic": {n: {"t0": 0.0, "u0": q(0.5, 1.5)} for n in SYS_UNKNOWNS},
            "obs": {n: {"pinn_in": [[q(0, 1)] for _ in range(3)], "val": [[q(-1, 1)] for _ in range(3)], "obs_slice": None,
                        "eq_params": {}} for n in SYS_UNKNOWNS},
            "boundary": None, "norm": None,
            "w": {"dyn_loss": q(0.5, 2), "initial_condition": {"u": q(0.5, 2), "v": q(0.5, 2)},
                  "observations": {"u": q(0.5, 2), "v": q(0.5, 2)}}}
    from vpkit.systems import nfeat

    spec["equations"] = {"e1": {"coef": [[q(0.5, 1.5) for _ in range(nfeat(2, 2))]]}}
    return spec


def sys_bits(mi):
    out, b = {}, 0
    for n in SYS_UNKNOWNS:
        out[n] = {}
        for t in SYS_TERMS:
            out[n][t] = {}
            for g in GROUPS:
                out[n][t][g] = bool((mi >> b) & 1)
                b += 1
    return out


def make_sys_dk(bits):
    import jax.numpy as jnp
    import jinns

    out = {}
    for n in SYS_UNKNOWNS:
        kw = {}
        for t in SYS_TERMS + ["dyn_loss"]:
            gb = bits[n].get(t, {"nn_params": True, "theta": False, "phi": False})
            kw[t] = jinns.parameters.Params(nn_params=jnp.asarray(gb["nn_params"]),
                                            eq_params={"theta": jnp.asarray(gb["theta"]), "phi": jnp.asarray(gb["phi"])})
        out[n] = jinns.parameters.DerivativeKeysODE(**kw)
    out["e1"] = out["u"]  # entry for the equation key (not used for routing: the system dynamic term is nn-only)
    return out


def _sys_flat(g):
    import jax

    out = {"theta": np.asarray(g.eq_params["theta"], dtype=np.float64).ravel(),
           "phi": np.asarray(g.eq_params["phi"], dtype=np.float64).ravel()}
    for n in SYS_UNKNOWNS:
        out["nn:" + n] = np.concatenate([np.asarray(l, dtype=np.float64).ravel() for l in jax.tree_util.tree_leaves(g.nn_params[n])])
    return out


def run_sys_block(case):
    """Gradient routing of the per-unknown terms (initial condition, observations) of a SystemLossODE."""
    import equinox as eqx
    import jax

    from vpkit.systems import build_system

    spec = case["spec"]
    labels = ["system-ode", "jit"]
    nbits = len(SYS_UNKNOWNS) * len(SYS_TERMS) * len(GROUPS)
    loss, params, batch = build_system(spec, derivative_keys_dict=make_sys_dk(sys_bits((1 << nbits) - 1)))

    def with_masks(l, mi):
        dk = make_sys_dk(sys_bits(mi))
        return eqx.tree_at(lambda m: [m.u_constraints_dict[n].derivative_keys for n in SYS_UNKNOWNS], l, [dk[n] for n in SYS_UNKNOWNS])

    def total_grad(l, p, b):
        def tot(pp):
            t, terms = l.evaluate(pp, b)
            return t, (t, terms)

        g, (t, terms) = jax.grad(tot, has_aux=True)(p)
        return g, t, terms

    jg = jax.jit(total_grad)
    # reference blocks: every (unknown, term) alone selected for everything, the others for nothing -> difference to baseline
    g_none, t0, terms0 = jg(with_masks(loss, 0), params, batch)
    base = _sys_flat(g_none)  # contribution of the dynamic term (nn only) + nothing else
    blocks = {}
    b = 0
    for n in SYS_UNKNOWNS:
        for t in SYS_TERMS:
            mi = ((1 << len(GROUPS)) - 1) << b
            g, _, _ = jg(with_masks(loss, mi), params, batch)
            fl = _sys_flat(g)
            blocks[(n, t)] = {k: fl[k] - base[k] for k in fl}
            b += len(GROUPS)
    groups_of = lambda n: {"nn_params": "nn:" + n, "theta": "theta", "phi": "phi"}
    nz = all(np.max(np.abs(blocks[(n, t)][groups_of(n)[g]])) > 1e-6 for n in SYS_UNKNOWNS for t in SYS_TERMS for g in GROUPS)
    if np.max(np.abs(base["theta"])) != 0 or np.max(np.abs(base["phi"])) != 0:
        return fail("system-unselected-eq-params-not-exactly-zero", {"theta": base["theta"].tolist()}, labels=labels)
    start, count = case["block"]
    stride = case.get("stride", 1)
    checked = 0
    # masks that are also routed through the public constructor (derivative_keys_dict -> per-unknown losses): the two
    # one-unknown-only masks and every 16th mask of the block
    per_unknown = len(SYS_TERMS) * len(GROUPS)
    via_ctor = {(1 << per_unknown) - 1, ((1 << per_unknown) - 1) << per_unknown}
    todo = list(range(start, start + count * stride, stride))
    via_ctor |= set(todo[::16])
    for mi in sorted(set(todo) | via_ctor):
        bits = sys_bits(mi)
        g, t, terms = jg(with_masks(loss, mi), params, batch)
        if not np.array_equal(np.asarray(t), np.asarray(t0)):
            return fail("loss-value-depends-on-derivative-keys", {"mask": mi, "system": True}, labels=labels)
        fl = _sys_flat(g)
        if mi in via_ctor:
            loss_c, _, _ = build_system(spec, derivative_keys_dict=make_sys_dk(bits))
            gc, tc, _ = jg(loss_c, params, batch)
            flc = _sys_flat(gc)
            if not np.array_equal(np.asarray(tc), np.asarray(t0)):
                return fail("loss-value-depends-on-derivative-keys", {"mask": mi, "system": True, "via": "constructor"}, labels=labels)
            for k in fl:
                if not np.array_equal(flc[k], fl[k]):
                    return fail("gradient-routing:system-derivative_keys_dict-not-applied-per-unknown",
                                {"mask": mi, "group": k, "via_constructor": flc[k][:3].tolist(), "direct": fl[k][:3].tolist()},
                                labels=labels)
        want = {k: base[k].copy() for k in base}
        for n in SYS_UNKNOWNS:
            for tname in SYS_TERMS:
                for gname in GROUPS:
                    if bits[n][tname][gname]:
                        key = groups_of(n)[gname]
                        want[key] = want[key] + blocks[(n, tname)][key]
        for k in want:
            scale = 1 + sum(float(np.max(np.abs(blocks[bt][k]))) for bt in blocks)
            if not np.max(np.abs(fl[k] - want[k])) <= 1e-9 * scale:
                return fail("gradient-routing:system-per-unknown-terms", {"mask": mi, "group": k, "got": fl[k][:3].tolist(),
                                                                         "want": want[k][:3].tolist()}, labels=labels)
        checked += 1
    return ok(nontrivial=nz, labels=labels, count=checked, detail={"masks": [start, count, stride]})


def enum_sys_blocks(tier):
    if tier == "quick":
        for b in range(2):
            yield {"spec": det_sys_spec(b), "block": [b, 584], "stride": 7}
    else:
        for v in range(2):
            for b in range(4):
                yield {"spec": det_sys_spec(v), "block": [1024 * b, 1024]}


_base_subchecks = subchecks


def subchecks():  # noqa: F811
    return _base_subchecks() + [
        SubCheck(name="system_per_unknown_terms_jit", mode="enum", enumerate=enum_sys_blocks, run_case=run_sys_block,
                 shards={"quick": 2, "thorough": 8}, clear_every=2,
                 exhaustive={"quick": False, "thorough": True}, doc="SystemLossODE (2 unknowns): every mask of (unknown x {initial condition, observations} x group) - 2^12, "
                     "sampled with stride in the quick tier - vs additive reference blocks"),
    ]
