"""C15 - observation and parameter loaders keep rows aligned with the user's tables."""
from __future__ import annotations

import math

import numpy as np

from vpkit import SubCheck, fail, ok

PROPERTY = "C15"
LEVEL = "exploration"
RULE = (
    "cases = (a) observation tables: n_obs 1..12, inputs 1-D or 2-D (1..3 columns), 1..3 value columns given 1-D or 2-D, "
    "0..2 observed parameters given as (n,) or (n,1), batch size <= n, 1..3 epochs of get_batch calls; every table entry "
    "is an injective function of its row index so a batch row identifies its source row; (b) parameter loaders: keys "
    "with ranges, keys with user tables in both documented shapes (n,) and (n,1), keys in both (table wins), uniform "
    "and grid; (c) multi-network loaders with 1..3 networks, some without observations, the three dictionaries written in "
    "independent key orders. Oracle: every batch row's "
    "(input, value, parameter...) tuple is one row of the original table; samples of a ranged key lie in its own range, "
    "samples of a table key are a permutation of its table at every call; multi loader returns one aligned batch per "
    "network and None for networks without observations. Non-trivial = n >= 3, batch < n, and (a) at least one "
    "observed parameter / (b) at least two keys with disjoint ranges or a table key."
)
ASSUMPTIONS = ["x64 so that table values are stored exactly"]


def _arr(v, shape2d):
    import jax.numpy as jnp

    a = jnp.asarray(v, dtype=float)
    return a[:, None] if shape2d and a.ndim == 1 else a


def build_obs_tables(cfg):
    n = cfg["n"]
    idx = np.arange(n, dtype=np.float64)
    pin = np.stack([idx * 0.5 + 7.0 * j for j in range(cfg["cin"])], axis=1)
    val = np.stack([100.0 + idx * 3.0 + 1000.0 * j for j in range(cfg["cval"])], axis=1)
    prm = {name: -50.0 - idx * (2.0 + j) for j, name in enumerate(cfg["pnames"])}
    return pin, val, prm


def make_obs_gen(cfg, key):
    import jax.numpy as jnp
    import jinns

    pin, val, prm = build_obs_tables(cfg)
    pin_in = jnp.asarray(pin[:, 0]) if (cfg["cin"] == 1 and cfg["pin_1d"]) else jnp.asarray(pin)
    val_in = jnp.asarray(val[:, 0]) if (cfg["cval"] == 1 and cfg["val_1d"]) else jnp.asarray(val)
    prm_in = {k: (jnp.asarray(v) if cfg["p_1d"] else jnp.asarray(v)[:, None]) for k, v in prm.items()}
    kw = {}
    if cfg.get("sharding_device"):
        # documented option: keep the tables on a given device (another branch of the constructor)
        import jax

        kw["sharding_device"] = jax.sharding.SingleDeviceSharding(jax.devices()[0])
    return jinns.data.DataGeneratorObservations(key, cfg["b"], pin_in, val_in, prm_in, **kw), (pin, val, prm)


def check_obs_batch(batch, tables, cfg, labels):
    pin, val, prm = tables
    bp, bv = np.asarray(batch["pinn_in"]), np.asarray(batch["val"])
    b = cfg["b"]
    if bp.shape != (b, cfg["cin"]) or bv.shape != (b, cfg["cval"]):
        return fail("obs-batch-shape", {"pinn_in": list(bp.shape), "val": list(bv.shape)}, labels=labels), None
    if set(batch["eq_params"].keys()) != set(prm.keys()):
        return fail("obs-batch-parameter-keys", {"got": sorted(batch["eq_params"]), "want": sorted(prm)}, labels=labels), None
    rows = []
    for r in range(b):
        i = round((bp[r, 0] - 0.0) / 0.5)
        if not (0 <= i < cfg["n"]) or not np.array_equal(bp[r], pin[i]):
            return fail("obs-input-row-not-in-table", {"row": bp[r].tolist()}, labels=labels), None
        if not np.array_equal(bv[r], val[i]):
            return fail("obs-value-from-another-row", {"input_row": int(i), "value": bv[r].tolist(), "want": val[i].tolist()},
                        labels=labels), None
        for k, tab in prm.items():
            got = np.asarray(batch["eq_params"][k])
            if got.shape != (b, 1):
                return fail("obs-parameter-batch-shape", {"key": k, "shape": list(got.shape)}, labels=labels), None
            if got[r, 0] != tab[i]:
                return fail("obs-parameter-from-another-row", {"key": k, "input_row": int(i), "got": float(got[r, 0]),
                                                               "want": float(tab[i])}, labels=labels), None
        rows.append(int(i))
    if len(set(rows)) != len(rows):
        return fail("obs-batch-repeats-a-row", {"rows": rows}, labels=labels), None
    return None, rows


def run_obs(case):
    import jax

    cfg = case["cfg"]
    labels = ["obs", f"p{len(cfg['pnames'])}"] + (["sharding_device"] if cfg.get("sharding_device") else [])
    g, tables = make_obs_gen(cfg, jax.random.PRNGKey(cfg["key"]))
    seen = set()
    for _ in range(cfg["calls"]):
        g, batch = g.get_batch()
        v, rows = check_obs_batch(batch, tables, cfg, labels)
        if v is not None:
            return v
        seen.update(rows)
    nt = cfg["n"] >= 3 and cfg["b"] < cfg["n"] and len(cfg["pnames"]) >= 1
    return ok(nontrivial=nt, labels=labels, detail={"rows_seen": len(seen)})


def strat_obs():
    from hypothesis import strategies as st

    @st.composite
    def s(draw):
        n = draw(st.one_of(st.integers(1, 12), st.integers(3, 12)))
        b = draw(st.one_of(st.integers(1, n), st.integers(1, max(1, n - 1))))
        np_ = draw(st.sampled_from([0, 1, 1, 2, 2]))
        cfg = {"n": n, "b": b, "cin": draw(st.integers(1, 3)), "cval": draw(st.integers(1, 3)),
               "pnames": ["nu", "theta"][:np_], "pin_1d": draw(st.booleans()), "val_1d": draw(st.booleans()),
               "p_1d": draw(st.booleans()), "key": draw(st.integers(0, 2**31 - 1)),
               "calls": draw(st.integers(1, 3)) * math.ceil(n / b) + draw(st.integers(0, 1)),
               "sharding_device": draw(st.booleans())}
        return {"cfg": cfg}

    return s()


# ---------------------------------------------------------------- parameter loader
def run_param(case):
    import jax
    import jax.numpy as jnp
    import jinns

    cfg = case["cfg"]
    n, b = cfg["n"], cfg["b"]
    labels = ["param", cfg["method"]]
    ranges = {k: tuple(v) for k, v in cfg["ranges"].items()}
    tables = {}
    user = {}
    for j, (k, shape) in enumerate(cfg["tables"].items()):
        tab = 1000.0 * (j + 1) + np.arange(n, dtype=np.float64) * 0.5
        tables[k] = tab
        user[k] = jnp.asarray(tab) if shape == "n" else jnp.asarray(tab)[:, None]
        labels.append(f"table-{shape}")
    key = jax.random.PRNGKey(cfg["key"])
    if cfg["keys_as_dict"]:
        allk = sorted(set(ranges) | set(user))
        key = dict(zip(allk, jax.random.split(key, len(allk))))
    g = jinns.data.DataGeneratorParameter(key, n, b, param_ranges=ranges, method=cfg["method"],
                                          user_data=user if (user or not cfg["user_none"]) else None)
    allk = set(ranges) | set(tables)
    for call in range(cfg["calls"]):
        g, batch = g.get_batch()
        if set(batch.keys()) != allk:
            return fail("param-batch-keys", {"got": sorted(batch), "want": sorted(allk)}, labels=labels)
        for k in allk:
            v = np.asarray(batch[k])
            if v.shape != (b, 1):
                return fail("param-batch-shape", {"key": k, "shape": list(v.shape)}, labels=labels)
            store = np.asarray(g.param_n_samples[k])
            if store.shape != (n, 1):
                return fail("param-store-shape", {"key": k, "shape": list(store.shape), "requested": [n, 1]}, labels=labels)
            if k in tables:
                if sorted(store[:, 0].tolist()) != sorted(tables[k].tolist()):
                    return fail("param-table-not-preserved", {"key": k, "store": store[:, 0].tolist()}, labels=labels)
                if not all(x in set(tables[k].tolist()) for x in v[:, 0].tolist()):
                    return fail("param-sample-not-from-its-table", {"key": k, "batch": v[:, 0].tolist()}, labels=labels)
            else:
                lo, hi = ranges[k]
                if not (np.all(v >= lo) and np.all(v <= hi)):
                    return fail("param-sample-outside-its-range", {"key": k, "range": [lo, hi], "batch": v[:, 0].tolist()},
                                labels=labels)
                if not (np.all(store >= lo) and np.all(store <= hi)):
                    return fail("param-store-outside-its-range", {"key": k, "range": [lo, hi]}, labels=labels)
            if len(set(v[:, 0].tolist())) != b and k in tables:
                return fail("param-batch-repeats-a-row", {"key": k}, labels=labels)
    only_ranged = [k for k in ranges if k not in tables]
    nt = n >= 3 and b < n and (len(tables) >= 1 or len(only_ranged) >= 2)
    both = [k for k in tables if k in ranges]
    if both:
        labels.append("table-and-range")
    return ok(nontrivial=nt, labels=labels)


def strat_param():
    from hypothesis import strategies as st

    RANGES = {"nu": (0.5, 1.0), "theta": (2.0, 3.5), "alpha": (-4.0, -3.0)}

    @st.composite
    def s(draw):
        n = draw(st.one_of(st.integers(1, 12), st.integers(3, 12)))
        b = draw(st.one_of(st.integers(1, n), st.integers(1, max(1, n - 1))))
        rk = draw(st.lists(st.sampled_from(sorted(RANGES)), min_size=0, max_size=3, unique=True))
        tk = draw(st.lists(st.sampled_from(["theta", "alpha", "kappa"]), min_size=0 if rk else 1, max_size=2, unique=True))
        cfg = {"n": n, "b": b, "ranges": {k: list(RANGES[k]) for k in rk},
               "tables": {k: draw(st.sampled_from(["n", "n1"])) for k in tk},
               "method": draw(st.sampled_from(["uniform", "grid"])), "key": draw(st.integers(0, 2**31 - 1)),
               "keys_as_dict": draw(st.booleans()), "user_none": draw(st.booleans()),
               "calls": draw(st.integers(1, 3)) * math.ceil(n / b) + draw(st.integers(0, 1))}
        return {"cfg": cfg}

    return s()


# ---------------------------------------------------------------- multi-network loader
def run_multi(case):
    import jax
    import jax.numpy as jnp
    import jinns

    cfg = case["cfg"]
    labels = ["multi", f"nets{len(cfg['nets'])}"]
    pin_d, val_d, prm_d, tabs = {}, {}, {}, {}
    for name, c in cfg["nets"].items():
        if c is None:
            pin_d[name], val_d[name], prm_d[name] = None, None, {}
            continue
        sub = dict(c, n=cfg["n"], b=cfg["b"], pin_1d=False, val_1d=False, p_1d=False)
        pin, val, prm = build_obs_tables(sub)
        off = c["offset"]
        val = val + off
        tabs[name] = (pin, val, prm, sub)
        pin_d[name], val_d[name] = jnp.asarray(pin), jnp.asarray(val)
        prm_d[name] = {k: jnp.asarray(v)[:, None] for k, v in prm.items()}
    # the three dictionaries have the same keys but are written in independent insertion orders
    def reorder(d, perm):
        keys = list(d.keys())
        return {keys[i % len(keys)]: d[keys[i % len(keys)]] for i in perm if i < len(keys)} | d

    val_d = reorder(val_d, cfg.get("val_order", []))
    prm_d = reorder(prm_d, cfg.get("prm_order", []))
    kw = {} if cfg["omit_params"] and all(not v for v in prm_d.values()) else {"observed_eq_params_dict": prm_d}
    g = jinns.data.DataGeneratorObservationsMultiPINNs(cfg["b"], pin_d, val_d, key=jax.random.PRNGKey(cfg["key"]), **kw)
    for _ in range(cfg["calls"]):
        g, batches = g.get_batch()
        if set(batches.keys()) != set(cfg["nets"].keys()):
            return fail("multi-batch-keys", {"got": sorted(batches), "want": sorted(cfg["nets"])}, labels=labels)
        for name, c in cfg["nets"].items():
            if c is None:
                if batches[name] is not None and batches[name] != {}:
                    return fail("multi-entry-for-network-without-observations-not-empty", {"net": name}, labels=labels)
                continue
            pin, val, prm, sub = tabs[name]
            v, _rows = check_obs_batch(batches[name], (pin, val, prm), sub, labels)
            if v is not None:
                v.detail = dict(v.detail or {}, net=name)
                return v
    nn = sum(1 for c in cfg["nets"].values() if c is not None)
    return ok(nontrivial=cfg["n"] >= 3 and cfg["b"] < cfg["n"] and nn >= 1 and len(cfg["nets"]) >= 2, labels=labels)


def strat_multi():
    from hypothesis import strategies as st

    @st.composite
    def s(draw):
        n = draw(st.one_of(st.integers(1, 10), st.integers(3, 10)))
        b = draw(st.one_of(st.integers(1, n), st.integers(1, max(1, n - 1))))
        names = draw(st.lists(st.sampled_from(["u", "v", "p", "n1"]), min_size=draw(st.sampled_from([1, 2, 2, 2])), max_size=3,
                              unique=True))
        nets = {}
        for j, nm in enumerate(names):
            if draw(st.integers(0, 2)) == 0:
                nets[nm] = None
            else:
                nets[nm] = {"cin": draw(st.integers(1, 2)), "cval": draw(st.integers(1, 2)),
                            "pnames": ["nu"][: draw(st.integers(0, 1))], "offset": 10000.0 * (j + 1)}
        if all(v is None for v in nets.values()):
            nets[names[0]] = {"cin": 1, "cval": 1, "pnames": [], "offset": 10000.0}
        return {"cfg": {"n": n, "b": b, "nets": nets, "key": draw(st.integers(0, 2**31 - 1)),
                        "omit_params": draw(st.booleans()),
                        "val_order": draw(st.permutations([0, 1, 2])), "prm_order": draw(st.permutations([0, 1, 2])),
                        "calls": draw(st.integers(1, 2)) * math.ceil(n / b) + 1}}

    return s()


def subchecks():
    return [
        SubCheck(name="observation_rows_aligned", mode="given", strategy=strat_obs, run_case=run_obs,
                 counts={"quick": 150, "thorough": 12000}, shards={"quick": 3, "thorough": 16}, clear_every=30,
                 min_nontrivial_frac=0.25, doc="every batch row's (input, value, observed parameters) comes from one table row"),
        SubCheck(name="parameter_samples_per_key", mode="given", strategy=strat_param, run_case=run_param,
                 counts={"quick": 150, "thorough": 12000}, shards={"quick": 3, "thorough": 16}, clear_every=30,
                 min_nontrivial_frac=0.25, doc="ranged keys within their own range, table keys (both shapes, table wins) preserved"),
        SubCheck(name="multi_network_loader", mode="given", strategy=strat_multi, run_case=run_multi,
                 counts={"quick": 80, "thorough": 6000}, shards={"quick": 2, "thorough": 16}, clear_every=30,
                 min_nontrivial_frac=0.2, doc="one aligned batch per network, empty entry for networks without observations"),
    ]
