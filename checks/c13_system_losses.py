"""C13 - a system loss is the weighted composition of its equations and unknowns."""
from __future__ import annotations

import numpy as np

from vpkit import SubCheck, fail, ok
from vpkit.systems import SHORT, TERMS_ODE, TERMS_PDE, build_system, nfeat, ref_system

PROPERTY = "C13"
LEVEL = "exploration"
RULE = (
    "cases = system specs: E in 1..3 equations x U in 1..3 unknowns with random key names (equal and different key sets), "
    "ODE / stationary / non-stationary (dim 1 and 2; equations use t and x asymmetrically: d/dx_last of the first unknown, "
    "d/dt (first coordinate) of the last unknown, first and last coordinate), analytic networks sharing flat equation "
    "parameters, weights scalar / per-key dict (written in an arbitrary key order) / None / omitted per term, per-unknown initial / boundary / normalisation / "
    "observation specifications (some None), optional per-sample parameter batch. Oracle: dyn = sum_e w_e mean_i sum_c "
    "r_e(t_i,x_i)^2 from numpy closed forms; every other term = sum_u w_u * single-network reference term; total = sum; "
    "1x1 system == plain loss. Non-trivial = weights of the configured terms pairwise distinct, residual means of the "
    "equations pairwise distinct, E != U counted separately."
)
ASSUMPTIONS = ["a weight given as None means the term is not counted (what set_loss_weights encodes with 0)",
               "omitted weights: library defaults (ODE dict weights default to None, PDE ones to 1.0)",
               "tolerance 1e-9*(1+|value|) in x64"]
TOL = 1e-9


def run_case(case):
    spec = case["spec"]
    kind = spec["kind"]
    E, U = len(spec["equations"]), len(spec["unknowns"])
    labels = [kind, f"E{E}U{U}", "E!=U" if E != U else "E==U",
              "same-keys" if set(spec["equations"]) == set(spec["unknowns"]) else "different-keys"]
    if spec.get("param_batch"):
        labels.append("param-batch")
    want, R = ref_system(spec)
    loss, params, batch = build_system(spec)
    eq_before = {k: np.asarray(v).copy() for k, v in params.eq_params.items()}
    total, terms = loss.evaluate(params, batch)
    for k, v in params.eq_params.items():
        if not np.array_equal(np.asarray(v), eq_before[k]):
            return fail("caller-params-modified-in-place", {"key": k, "before": eq_before[k].tolist(),
                                                            "after": np.asarray(v).tolist()[:4]}, labels=labels)
    for k, v in terms.items():
        if np.asarray(v).size != 1:
            return fail("system-term-not-scalar", {"term": k, "shape": list(np.asarray(v).shape)}, labels=labels)
    got = {k: float(np.asarray(v).reshape(-1)[0]) for k, v in terms.items()}
    total = float(np.asarray(total).reshape(-1)[0])
    s = sum(got.values())
    if not abs(float(total) - s) <= 1e-12 * (1 + abs(s)):
        return fail("total-not-sum-of-terms", {"total": float(total), "terms": got}, labels=labels)
    for t in ["dyn_loss"] + (TERMS_ODE if kind == "ode" else TERMS_PDE):
        if not abs(got[t] - want[t]) <= TOL * (1 + abs(want[t]) + abs(got[t])):
            return fail("system-dyn_loss-value" if t == "dyn_loss" else "system-constraint-term-value",
                        {"term": t, "got": got[t], "want": want[t], "w": spec["w"].get(t, "omitted"), "kind": kind, "E": E, "U": U},
                        labels=labels)
    means = [float(np.mean(np.sum(r**2, axis=1))) for r in R.values()]
    dist = lambda v: all(abs(a - b) > 1e-6 for i, a in enumerate(v) for b in v[i + 1:])
    wd = spec["w"].get("dyn_loss")
    wvals = list(wd.values()) if isinstance(wd, dict) else []
    nt = dist(means) and all(m > 1e-6 for m in means) and (not wvals or dist(wvals))
    for t in (TERMS_ODE if kind == "ode" else TERMS_PDE):
        if spec.get(SHORT[t]) and any(v is not None for v in spec[SHORT[t]].values()):
            labels.append(SHORT[t])
    for t, w in spec["w"].items():
        labels.append(f"w:{'dict' if isinstance(w, dict) else ('none' if w is None else 'scalar')}")
    return ok(nontrivial=nt, labels=labels, detail={"dyn": want["dyn_loss"], "total": want["total"]})


def strat(force_pb=False):
    from hypothesis import strategies as st

    from vpkit.fields import field_specs, q16
    from vpkit.strats import boundary_strat, box_strat, points, pos16

    NAMES = ["u", "v", "w", "p", "n1", "0"]
    ENAMES = ["mass", "momentum", "eq3", "u", "v", "w"]

    @st.composite
    def s(draw):
        kind = draw(st.sampled_from(["ode", "statio", "nonstatio"]))
        d = 0 if kind == "ode" else draw(st.sampled_from([1, 2, 2]))
        time = kind != "statio"
        din = d + (1 if time else 0)
        U = draw(st.integers(1, 3))
        E = draw(st.integers(1, 3))
        unames = draw(st.lists(st.sampled_from(NAMES), min_size=U, max_size=U, unique=True))
        if draw(st.booleans()) and E == U:
            enames = list(unames)
        else:
            enames = draw(st.lists(st.sampled_from(ENAMES), min_size=E, max_size=E, unique=True))
        tr = draw(st.sampled_from(["none", "scale", "affine"]))
        spec = {"kind": kind, "dim": d, "hetero": None}
        spec["eq_params"] = {"theta": draw(pos16(0.5, 2))}
        if tr == "affine":
            spec["eq_params"]["phi"] = draw(q16(-1, 1))
        if draw(st.booleans()):
            spec["eq_params"]["alpha"] = draw(q16(-2, 2))
        Pn = len(spec["eq_params"])
        ms = {n: draw(st.integers(1, 2)) for n in unames}
        spec["unknowns"] = {n: {"field": draw(field_specs(din, ms[n], nsin=(1, 2), gauss=False)), "transform": tr}
                            for n in unames}
        K = nfeat(U, Pn)
        spec["equations"] = {e: {"coef": [[draw(q16(-2, 2)) for _ in range(K)] for _ in range(draw(st.integers(1, 2)))]}
                             for e in enames}
        spec["box"] = draw(box_strat(max(d, 1)))
        mn, mx = spec["box"]["min"], spec["box"]["max"]
        batch = {}
        if kind == "ode":
            n = draw(st.integers(1, 4))
            batch["t"] = draw(st.lists(q16(0, 2), min_size=n, max_size=n, unique=True))
            N = n
        elif kind == "statio":
            n = draw(st.integers(1, 4))
            batch["x"] = draw(points(n, d))
            N = n
        else:
            cart = draw(st.booleans())
            nt = draw(st.integers(1, 3))
            nx = draw(st.integers(1, 3)) if cart else nt
            batch["t"] = draw(st.lists(q16(0, 1), min_size=nt, max_size=nt, unique=True))
            batch["x"] = draw(points(nx, d))
            batch["cartesian"] = cart
            N = nt * nx if cart else nt
        pb_on = force_pb or draw(st.integers(0, 3)) == 0
        w = {}

        def wspec(keys, allow_none=True):
            mode = draw(st.sampled_from(["scalar", "dict", "dict", "array"] + (["none"] if allow_none else [])))
            if mode == "none":
                return None  # the term is configured but given no weight: it is not counted
            if mode == "scalar":
                return draw(pos16())
            if mode == "array":
                return [draw(pos16())]
            # per-key dictionaries are written in an arbitrary key order (not necessarily the order of u_dict)
            return {k: draw(pos16()) for k in draw(st.permutations(list(keys)))}

        w["dyn_loss"] = wspec(enames, allow_none=False)
        # ---- per-unknown constraints
        def per_unknown(make):
            dct = {n: (make(n) if draw(st.booleans()) else None) for n in unames}
            if all(v is None for v in dct.values()):
                dct[unames[0]] = make(unames[0])
            return dct

        if time and draw(st.booleans()):
            if kind == "ode":
                spec["ic"] = per_unknown(lambda n: {"t0": draw(q16(0, 1)), "u0": [draw(q16(-2, 2)) for _ in range(ms[n])]
                                                    if (ms[n] > 1 or draw(st.booleans())) else draw(q16(-2, 2))})
            else:
                spec["ic"] = per_unknown(lambda n: {"a": [draw(q16(-2, 2, nonzero=True)) for _ in range(ms[n])], "b": draw(q16(-2, 2)),
                                                    "c": [draw(q16(-2, 2)) for _ in range(ms[n])],
                                                    "ret": "vec" if ms[n] > 1 else draw(st.sampled_from(["scalar", "one"]))})
            w["initial_condition"] = wspec(unames)
        else:
            spec["ic"] = None
            if draw(st.booleans()):
                w["initial_condition"] = None if kind != "ode" or draw(st.booleans()) else draw(pos16())
        if kind != "ode" and draw(st.booleans()) and not (pb_on and d == 1):
            if d == 2:
                if pb_on:
                    nb = N if kind == "statio" else (N // len(batch["t"]) if batch.get("cartesian", True) else N)
                else:
                    nb = draw(st.integers(1, 3)) if (kind == "statio" or batch.get("cartesian", True)) else len(batch["t"])
                batch["border"] = [[mn[1 - f // 2] + draw(st.integers(0, 16)) / 16.0 * (mx[1 - f // 2] - mn[1 - f // 2])
                                    for _ in range(nb)] for f in range(4)]
            spec["boundary"] = per_unknown(lambda n: draw(boundary_strat(d, ms[n])))
            w["boundary_loss"] = wspec(unames)
        else:
            spec["boundary"] = None
        if kind != "ode" and not pb_on and draw(st.booleans()) and any(m == 1 for m in ms.values()):
            cands = [n for n in unames if ms[n] == 1]
            spec["norm"] = {n: ({"samples": draw(points(draw(st.integers(2, 5)), d)), "L": draw(pos16(0.5, 4))}
                                if (n in cands and (n == cands[0] or draw(st.booleans()))) else None) for n in unames}
            w["norm_loss"] = wspec(unames)
        else:
            spec["norm"] = None
        if draw(st.booleans()):
            def mk_obs(n):
                return {"pinn_in": draw(points(N, din)), "val": [[draw(q16(-2, 2)) for _ in range(ms[n])] for _ in range(N)],
                        "obs_slice": None, "eq_params": {}}
            spec["obs"] = per_unknown(mk_obs)
            w["observations"] = wspec(unames)
        else:
            spec["obs"] = None
        spec["batch"] = batch
        spec["w"] = w
        spec["param_batch"] = None
        if pb_on:
            keys = draw(st.lists(st.sampled_from(sorted(spec["eq_params"])), min_size=1, max_size=Pn, unique=True))
            spec["param_batch"] = {k: draw(st.lists(q16(0.5, 2.5) if k == "theta" else q16(-2, 2), min_size=N, max_size=N,
                                                    unique=True)) for k in sorted(keys)}
        return {"spec": spec}

    return s()


# ---- 1x1 system == plain loss ------------------------------------------------------------------
def run_one_by_one(case):
    """Differential: SystemLoss with one equation and one unknown vs the plain loss on the same data."""
    import functools

    import jax.numpy as jnp
    import jinns

    from vpkit import problems as P

    spec = case["spec"]  # a single-loss spec (vpkit.problems)
    kind = spec["kind"]
    labels = [kind, "1x1"]
    loss, params, batch = P.build_single(spec)
    total_p, terms_p = loss.evaluate(params, batch)
    name = case["name"]
    u, nn = P.make_net(spec["net"], P.EQ_TYPES[kind])
    pnames = tuple(sorted(spec["eq_params"]))
    cls = _wrap_classes()[kind]
    dyn = {case["ename"]: cls(coef=jnp.asarray(spec["eq"]["coef"], dtype=float), pnames=pnames, name=name)}
    pd = jinns.parameters.ParamsDict(nn_params={name: nn}, eq_params={k: jnp.asarray(v, dtype=float)
                                                                       for k, v in spec["eq_params"].items()})
    w = dict(spec["w"])
    if isinstance(w.get("dyn_loss"), list) or any(isinstance(v, list) and len(v) > 1 for v in w.values()):
        return ok(nontrivial=False, labels=labels + ["vector-weight-skipped"])
    w = {k: (v[0] if isinstance(v, list) else v) for k, v in w.items()}
    import warnings

    with warnings.catch_warnings():
        warnings.simplefilter("ignore")
        if kind == "ode":
            ic = spec.get("ic")
            sysl = jinns.loss.SystemLossODE(
                u_dict={name: u}, dynamic_loss_dict=dyn, loss_weights=jinns.loss.LossWeightsODEDict(**w),
                initial_condition_dict=None if not ic else {name: (ic["t0"], ic["u0"])}, params_dict=pd,
                obs_slice_dict=_obs_slice(spec, name))
        else:
            kw = {}
            k = P.boundary_kwargs(spec)
            if k:
                kw.update(omega_boundary_fun_dict={name: k["omega_boundary_fun"]},
                          omega_boundary_condition_dict={name: k["omega_boundary_condition"]},
                          omega_boundary_dim_dict={name: k["omega_boundary_dim"]})
            if spec.get("norm"):
                kw.update(norm_samples_dict={name: jnp.asarray(spec["norm"]["samples"], dtype=float)},
                          norm_int_length_dict={name: spec["norm"]["L"]})
            if spec.get("ic") and kind == "nonstatio":
                kw.update(initial_condition_fun_dict={name: P.make_ic_fun(spec["ic"])})
            sysl = jinns.loss.SystemLossPDE(u_dict={name: u}, dynamic_loss_dict=dyn,
                                            loss_weights=jinns.loss.LossWeightsPDEDict(**w), params_dict=pd,
                                            obs_slice_dict=_obs_slice(spec, name), **kw)
    b2 = batch
    if batch.obs_batch_dict is not None:
        b2 = jinns.data.append_obs_batch(batch, {name: batch.obs_batch_dict})
    total_s, terms_s = sysl.evaluate(pd, b2)
    for t, v in terms_p.items():
        if t not in terms_s:
            continue
        if not abs(float(v) - float(terms_s[t])) <= 1e-12 * (1 + abs(float(v))):
            return fail(f"one-by-one-system-differs-from-plain:{t}", {"plain": float(v), "system": float(terms_s[t]), "kind": kind},
                        labels=labels)
    if not abs(float(total_p) - float(total_s)) <= 1e-12 * (1 + abs(float(total_p))):
        return fail("one-by-one-system-differs-from-plain:total", {"plain": float(total_p), "system": float(total_s)}, labels=labels)
    return ok(nontrivial=float(terms_p["dyn_loss"]) > 1e-9, labels=labels)


def _obs_slice(spec, name):
    from vpkit.problems import _slice

    if spec.get("obs") and spec["obs"].get("obs_slice") is not None:
        return {name: _slice(spec["obs"]["obs_slice"])}
    return None


def _wrap_classes():
    import functools

    return __wrap_classes()


import functools as _ft


@_ft.lru_cache(maxsize=None)
def __wrap_classes():
    import equinox as eqx
    import jax.numpy as jnp
    from jinns.loss import ODE, PDENonStatio, PDEStatio

    from vpkit.problems import _gen_residual

    class W_ODE(ODE):
        coef: jnp.ndarray
        pnames: tuple = eqx.field(static=True)
        name: str = eqx.field(static=True)

        def equation(self, t, u_dict, pd):
            p = pd.extract_params(self.name)
            return _gen_residual(self.coef, self.pnames, lambda z: u_dict[self.name](z, p), jnp.reshape(t, (1,)), p)

    class W_S(PDEStatio):
        coef: jnp.ndarray
        pnames: tuple = eqx.field(static=True)
        name: str = eqx.field(static=True)

        def equation(self, x, u_dict, pd):
            p = pd.extract_params(self.name)
            return _gen_residual(self.coef, self.pnames, lambda z: u_dict[self.name](z, p), x, p)

    class W_N(PDENonStatio):
        coef: jnp.ndarray
        pnames: tuple = eqx.field(static=True)
        name: str = eqx.field(static=True)

        def equation(self, t, x, u_dict, pd):
            p = pd.extract_params(self.name)
            return _gen_residual(self.coef, self.pnames, lambda z: u_dict[self.name](z[0:1], z[1:], p),
                                 jnp.concatenate([t, x]), p)

    return {"ode": W_ODE, "statio": W_S, "nonstatio": W_N}


def strat_1x1():
    from hypothesis import strategies as st

    from vpkit.strats import single_spec

    @st.composite
    def s(draw):
        spec = draw(single_spec(want=("eq",), maybe=("ic", "boundary", "norm", "obs"), param_batch="no", nmax=4))
        name = draw(st.sampled_from(["u", "n1", "p"]))
        return {"spec": spec, "name": name, "ename": draw(st.sampled_from([name, "eq"]))}

    return s()


def subchecks():
    return [
        SubCheck(name="system_vs_reference", mode="given", strategy=strat, run_case=run_case,
                 counts={"quick": 160, "thorough": 3000}, shards={"quick": 8, "thorough": 16}, clear_every=40,
                 min_nontrivial_frac=0.3,
                 doc="SystemLossODE/SystemLossPDE (E x U, weights scalar/dict/None/omitted, per-unknown constraints) vs numpy reference"),
        SubCheck(name="one_by_one_equals_plain", mode="given", strategy=strat_1x1, run_case=run_one_by_one,
                 counts={"quick": 48, "thorough": 1000}, shards={"quick": 4, "thorough": 16}, clear_every=40,
                 doc="differential: 1 equation x 1 unknown system vs the plain loss on the same data"),
    ]
