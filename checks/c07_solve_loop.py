"""C07 - solve() is observationally the textbook mini-batch training loop."""
from __future__ import annotations

import numpy as np

from vpkit import SubCheck, fail, ok
from vpkit.training import (diverges, gen_state_equal, ill_conditioned, make_program, program_cfgs, quiet, reference_loop, tree_close,
                            verbosity)

PROPERTY = "C07"
LEVEL = "exploration"
RULE = (
    "cases = training programs: loss kind (ODE, stationary, non-stationary, 2-unknown ODE system; analytic-field network or small real MLP with a "
    "parameter-dependent output transform; dynamic + initial / boundary / observation terms, equation parameters trained "
    "too), optimizer in {sgd, adam, adamw, chain(clip_by_global_norm, adam), sgd with exponential-decay / piecewise-constant "
    "schedules, sgd with momentum}, both loop implementations of solve (lax.while_loop, and the python loop selected by "
    "obs_batch_sharding), n_iter 1..8, store sizes 1..7 with batch sizes that do and do not divide them (so "
    "histories cross epoch boundaries), optional DataGeneratorParameter / DataGeneratorObservations, tracked-parameter "
    "specification (none / one eq key / all eq keys / an nn leaf + an eq key), and resumed runs (solve(n1) then solve(n2) "
    "with the returned optimizer state and generator). Oracle: eager reference loop; the whole 9-tuple is compared (loss "
    "history and per-term histories entry by entry, tracked values = post-update parameters, final parameters, optimizer "
    "state, returned generator state exactly, and exactly n iterations). Non-trivial = n >= 2, at least one reshuffle "
    "inside the run, parameters change by >1e-6 per step."
)
ASSUMPTIONS = ["jitted solve vs eager reference compared with rtol 1e-7 (x64); generator state compared exactly",
               "validation_crit_values / best_val_params are None without a validation module (covered by C19)"]


def _compare(out, ref, prog, n_iter, labels, tag=""):
    import jax

    params, losses, terms, data, loss_obj, opt_state, stored, vcrit, best = out
    losses = np.asarray(losses, dtype=np.float64)
    if losses.shape != (n_iter,):
        return fail("loss-history-shape", {"got": list(losses.shape), "n_iter": n_iter}, labels=labels)
    want = np.array(ref["loss"])
    if len(want) != n_iter:
        return fail("harness", {}, labels=labels)
    if not np.allclose(losses, want, rtol=1e-7, atol=1e-10):
        bad = int(np.argmax(~np.isclose(losses, want, rtol=1e-7, atol=1e-10)))
        return fail(f"loss-history{tag}", {"first_bad_iteration": bad, "got": losses[:bad + 2].tolist(), "want": want[:bad + 2].tolist()},
                    labels=labels)
    for k, arr in terms.items():
        arr = np.asarray(arr, dtype=np.float64)
        w = np.array([t[k] for t in ref["terms"]])
        if arr.shape != (n_iter,) or not np.allclose(arr, w, rtol=1e-7, atol=1e-10):
            return fail(f"term-history{tag}", {"term": k, "got": arr.tolist(), "want": w.tolist()}, labels=labels)
    okp, why = tree_close(params, ref["final_params"], rtol=1e-7)
    if not okp:
        return fail(f"final-params{tag}", {"why": why}, labels=labels)
    oks, why = tree_close(opt_state, ref["opt_state"], rtol=1e-7)
    if not oks:
        return fail(f"optimizer-state{tag}", {"why": why}, labels=labels)
    if not gen_state_equal(data, ref["data"]):
        return fail(f"returned-generator-state{tag}", {"explain": "returned data generator differs from the generator advanced n times"},
                    labels=labels)
    if vcrit is not None or best is not None:
        return fail("validation-outputs-without-validation", {}, labels=labels)
    # tracked parameters: value after the update of each iteration
    tr = prog["tracked"]
    if tr is not None:
        from vpkit.training import tracked_mismatch

        bad = tracked_mismatch(tr, stored, ref["params"][1:], n_iter)
        if bad is not None:
            return fail(f"tracked-parameter-history{tag}", bad, labels=labels)
    elif any(x is not None for x in jax.tree_util.tree_leaves(stored, is_leaf=lambda x: x is None)):
        return fail("untracked-parameter-stored", {}, labels=labels)
    return None


def _reshuffles(cfg, n):
    r = 0
    if "nt" in cfg:
        r = max(r, n // -(-cfg["nt"] // cfg["bt"]))
    if "n" in cfg:
        r = max(r, n // -(-cfg["n"] // cfg["bx"]))
    return r


def run_case(case):
    import jinns

    cfg = case["cfg"]
    n = cfg["n_iter"]
    prog = make_program(cfg)
    labels = [cfg["kind"], cfg["opt"], cfg["net"]["type"], f"tracked-{cfg['tracked']}"]
    if cfg.get("param_gen"):
        labels.append("param-gen")
    if cfg.get("obs_gen"):
        labels.append("obs-gen")
    ref = reference_loop(prog, n)
    if diverges(ref["loss"]):
        # the program diverges: solve() stops on NaN parameters (that behaviour is C18's), not a C07 case
        return ok(nontrivial=False, labels=labels + ["diverged-skipped"])
    kw = {}
    if cfg.get("sharding"):
        import jax

        kw["obs_batch_sharding"] = jax.sharding.SingleDeviceSharding(jax.devices()[0])
        labels.append("python-loop(obs sharding)")
    kw.update(verbosity(cfg))
    if kw["verbose"]:
        labels.append("verbose")
    with quiet():
        out = jinns.solve(n_iter=n, init_params=prog["params"], data=prog["data"], loss=prog["loss"], optimizer=prog["optimizer"],
                          tracked_params=prog["tracked"], param_data=prog["param_data"], obs_data=prog["obs_data"], **kw)
    v = _compare(out, ref, prog, n, labels)
    if v is not None:
        if v.bucket not in ("returned-generator-state", "loss-history-shape", "untracked-parameter-stored") and \
                ill_conditioned(prog, n, ref, np.asarray(out[1])):
            return ok(nontrivial=False, labels=labels + ["ill-conditioned-skipped"])
        return v
    # parameter movement
    import jax

    p0 = np.concatenate([np.asarray(l, dtype=np.float64).ravel() for l in jax.tree_util.tree_leaves(ref["params"][0])])
    p1 = np.concatenate([np.asarray(l, dtype=np.float64).ravel() for l in jax.tree_util.tree_leaves(ref["params"][1])])
    moved = float(np.max(np.abs(p1 - p0))) > 1e-6
    return ok(nontrivial=n >= 2 and _reshuffles(cfg, n) >= 1 and moved, labels=labels, detail={"n_iter": n})


def strat():
    return program_cfgs().map(lambda c: {"cfg": c})


def run_resume(case):
    import jinns

    cfg = case["cfg"]
    n1, n2 = case["n1"], case["n2"]
    prog = make_program(cfg)
    labels = [cfg["kind"], cfg["opt"], "resume"]
    ref = reference_loop(prog, n1 + n2)
    if diverges(ref["loss"]):
        return ok(nontrivial=False, labels=labels + ["diverged-skipped"])
    o1 = jinns.solve(n_iter=n1, init_params=prog["params"], data=prog["data"], loss=prog["loss"], optimizer=prog["optimizer"],
                     verbose=False)
    o2 = jinns.solve(n_iter=n2, init_params=o1[0], data=o1[3], loss=prog["loss"], optimizer=prog["optimizer"], opt_state=o1[5],
                     verbose=False)
    losses = np.concatenate([np.asarray(o1[1]), np.asarray(o2[1])])
    want = np.array(ref["loss"])
    if not np.allclose(losses, want, rtol=1e-7, atol=1e-10):
        if ill_conditioned(prog, n1 + n2, ref, losses):
            return ok(nontrivial=False, labels=labels + ["ill-conditioned-skipped"])
        bad = int(np.argmax(~np.isclose(losses, want, rtol=1e-7, atol=1e-10)))
        return fail("resumed-run-differs-from-single-loop", {"n1": n1, "n2": n2, "first_bad_iteration": bad,
                                                            "got": losses.tolist(), "want": want.tolist()}, labels=labels)
    okp, why = tree_close(o2[0], ref["final_params"], rtol=1e-7)
    if not okp:
        return fail("resumed-run-final-params", {"why": why}, labels=labels)
    oks, why = tree_close(o2[5], ref["opt_state"], rtol=1e-7)
    if not oks:
        return fail("resumed-run-optimizer-state", {"why": why}, labels=labels)
    if not gen_state_equal(o2[3], ref["data"]):
        return fail("resumed-run-generator-state", {}, labels=labels)
    # and the single run of n1+n2 iterations
    o = jinns.solve(n_iter=n1 + n2, init_params=prog["params"], data=prog["data"], loss=prog["loss"],
                    optimizer=prog["optimizer"], verbose=False)
    if not np.allclose(np.asarray(o[1]), want, rtol=1e-7, atol=1e-10):
        return fail("loss-history", {"via": "single run of n1+n2"}, labels=labels)
    return ok(nontrivial=_reshuffles(cfg, n1 + n2) >= 1, labels=labels, detail={"n1": n1, "n2": n2})


def strat_resume():
    from hypothesis import strategies as st

    @st.composite
    def s(draw):
        cfg = draw(program_cfgs(aux=False, max_iter=4))
        cfg["tracked"] = "none"
        return {"cfg": cfg, "n1": draw(st.integers(1, 4)), "n2": draw(st.integers(1, 4))}

    return s()


def subchecks():
    return [
        SubCheck(name="solve_vs_reference_loop", mode="given", strategy=strat, run_case=run_case,
                 counts={"quick": 40, "thorough": 800}, shards={"quick": 8, "thorough": 16}, clear_every=4,
                 min_nontrivial_frac=0.3, doc="the 9-tuple returned by jinns.solve vs the eager textbook loop"),
        SubCheck(name="resumed_runs", mode="given", strategy=strat_resume, run_case=run_resume,
                 counts={"quick": 16, "thorough": 320}, shards={"quick": 8, "thorough": 16}, clear_every=3,
                 min_nontrivial_frac=0.3, doc="solve(n1) then solve(n2) with returned opt_state/generator == loop of n1+n2 == solve(n1+n2)"),
    ]
