"""Runs one saved case without Hypothesis: python -m vpkit.replay <case.json> <out.json>."""
import json
import sys
import traceback

from .core import HarnessError, exception_bucket, jsonable
from .worker import assert_source, get_sub, load_check


def main(argv):
    cf, of = argv
    with open(cf) as f:
        r = json.load(f)
    try:
        src = assert_source()
        sub = get_sub(load_check(r["property"]), r["subcheck"])
        try:
            v = sub.run_case(r["case"])
            out = v.to_json()
        except HarnessError:
            raise
        except Exception as e:  # noqa: BLE001
            bucket, in_lib = exception_bucket(e, src)
            if not in_lib:
                raise
            out = {"ok": False, "bucket": bucket, "detail": {"traceback": traceback.format_exc()[-3000:]},
                   "nontrivial": True, "labels": ["exception"]}
    except BaseException as e:  # noqa: BLE001
        out = {"harness_error": "".join(traceback.format_exception(e))[-5000:]}
    with open(of, "w") as f:
        json.dump(jsonable(out), f)


if __name__ == "__main__":
    main(sys.argv[1:])
