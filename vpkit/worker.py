"""Worker: runs one sub-check shard inside a fresh interpreter and writes a JSON result.

Environment (set by the parent runner): JINNS_SRC, JINNS_VERIF=1, PYTHONHASHSEED=0,
JAX_PLATFORMS=cpu, JAX_ENABLE_X64 (per sub-check).
"""
from __future__ import annotations

import gc
import importlib
import json
import os
import sys
import time
import traceback

from .core import (
    HarnessError,
    SubCheck,
    Verdict,
    case_hash,
    exception_bucket,
    jsonable,
)
from . import findings as findings_mod


class _CaseFailure(Exception):
    pass


class Recorder:
    def __init__(self, prop, sub: SubCheck, src_root, known):
        self.prop = prop
        self.sub = sub
        self.src_root = src_root
        self.known = known  # list of finding dicts for (prop, sub)
        self.evaluations = 0
        self.extra_nontrivial = 0
        self.excluded = 0
        self.nontrivial_hashes = set()
        self.all_hashes = set()
        self.labels = {}
        self.samples = []
        self.failures = {}  # bucket -> {"case","detail","bucket"}
        self.harness_errors = []
        self.ignored = set()
        self.last_fail = None
        self._since_clear = 0

    def evaluate(self, case) -> Verdict:
        """Runs one case with all bookkeeping; never raises for a violation."""
        case = jsonable(case)
        if findings_mod.in_any_region(self.known, case):
            self.excluded += 1
            return Verdict(True, False, ("excluded-known-finding",), None, "")
        self.evaluations += 1
        self._since_clear += 1
        try:
            v = self.sub.run_case(case)
            if not isinstance(v, Verdict):
                raise HarnessError(f"run_case returned {type(v)}")
        except HarnessError:
            raise
        except Exception as e:  # noqa: BLE001 - bucketed below
            bucket, in_lib = exception_bucket(e, self.src_root)
            tb = traceback.format_exc()
            if not in_lib:
                self.harness_errors.append({"case": case, "traceback": tb})
                raise HarnessError(tb) from e
            v = Verdict(False, True, ("exception",), {"traceback": tb[-3000:]}, bucket)
        if self._since_clear >= self.sub.clear_every:
            self._since_clear = 0
            try:
                import jax

                jax.clear_caches()
            except Exception:  # pragma: no cover
                pass
            gc.collect()
        h = case_hash(case)
        if v.count > 1 and h not in self.all_hashes:
            self.evaluations += v.count - 1
            if v.nontrivial:
                self.extra_nontrivial += v.count - 1
        self.all_hashes.add(h)
        if v.nontrivial:
            self.nontrivial_hashes.add(h)
        for lab in v.labels:
            self.labels[lab] = self.labels.get(lab, 0) + 1
        if v.ok and len(self.samples) < 6 and (v.nontrivial or len(self.samples) < 1):
            self.samples.append({"case": case, "labels": list(v.labels), "nontrivial": v.nontrivial,
                                 "detail": jsonable(v.detail) if v.detail is not None else None})
        return v

    def account(self, case, v: Verdict):
        """Bookkeeping for a case that was executed elsewhere (state machines)."""
        case = jsonable(case)
        self.evaluations += 1
        self._since_clear += 1
        if self._since_clear >= self.sub.clear_every:
            self._since_clear = 0
            try:
                import jax

                jax.clear_caches()
            except Exception:  # pragma: no cover
                pass
            gc.collect()
        h = case_hash(case)
        self.all_hashes.add(h)
        if v.nontrivial:
            self.nontrivial_hashes.add(h)
        for lab in v.labels:
            self.labels[lab] = self.labels.get(lab, 0) + 1
        if v.ok and len(self.samples) < 6 and (v.nontrivial or len(self.samples) < 1):
            self.samples.append({"case": case, "labels": list(v.labels), "nontrivial": v.nontrivial,
                                 "detail": jsonable(v.detail) if v.detail is not None else None})

    def guarded(self, fn, *a, **k):
        """Calls fn; an exception with a frame inside the library becomes a failing
        Verdict (returned as second element), one without is a harness error."""
        try:
            return fn(*a, **k), None
        except HarnessError:
            raise
        except Exception as e:  # noqa: BLE001
            bucket, in_lib = exception_bucket(e, self.src_root)
            tb = traceback.format_exc()
            if not in_lib:
                raise HarnessError(tb) from e
            return None, Verdict(False, True, ("exception",), {"traceback": tb[-3000:]}, bucket)

    def note_failure(self, case, v: Verdict):
        self.failures[v.bucket] = {
            "case": jsonable(case),
            "detail": jsonable(v.detail),
            "bucket": v.bucket,
        }


def _drive_enum(rec: Recorder, sub: SubCheck, tier, shard, nshards):
    n = 0
    for i, case in enumerate(sub.enumerate(tier)):
        if i % nshards != shard:
            continue
        n += 1
        v = rec.evaluate(case)
        if not v.ok and v.bucket not in rec.failures:
            rec.note_failure(case, v)
    return {"exhaustive": True, "enumerated": n}


def _settings(n, tier, stateful_steps=None):
    from hypothesis import HealthCheck, Phase, settings

    kw = dict(
        max_examples=n,
        database=None,
        deadline=None,
        derandomize=False,
        report_multiple_bugs=False,
        suppress_health_check=[HealthCheck.too_slow, HealthCheck.data_too_large],
        phases=[Phase.explicit, Phase.generate, Phase.shrink],
        print_blob=False,
    )
    if stateful_steps is not None:
        kw["stateful_step_count"] = stateful_steps
    return settings(**kw)


def _drive_given(rec: Recorder, sub: SubCheck, tier, seed, n, shrink_budget):
    import hypothesis
    from hypothesis import given

    info = {"rounds": 0}
    for rnd in range(2 if tier == "quick" else 5):
        info["rounds"] = rnd + 1
        state = {"first_fail_t": None, "best": None}

        @hypothesis.seed(seed)
        @_settings(n, tier)
        @given(sub.strategy())
        def prop(case):
            if state["first_fail_t"] is not None and time.time() - state["first_fail_t"] > shrink_budget:
                return  # shrink budget used up: the remaining shrink attempts are not even evaluated
            v = rec.evaluate(case)
            if v.ok or v.bucket in rec.ignored:
                return
            now = time.time()
            if state["first_fail_t"] is None:
                state["first_fail_t"] = now
            if now - state["first_fail_t"] > shrink_budget:
                return  # stop shrinking: makes remaining shrink attempts "pass"
            state["best"] = (jsonable(case), v)
            raise _CaseFailure(v.bucket)

        try:
            prop()
        except HarnessError:
            raise
        except hypothesis.errors.FailedHealthCheck as e:
            raise HarnessError(f"health check: {e}") from e
        except BaseException as e:  # noqa: BLE001 includes _CaseFailure, Flaky
            if state["best"] is None:
                if isinstance(e, (KeyboardInterrupt, SystemExit)):
                    raise
                raise HarnessError("".join(traceback.format_exception(e))) from e
        if state["best"] is None:
            break
        case, v = state["best"]
        rec.note_failure(case, v)
        rec.ignored.add(v.bucket)
    return info


def _drive_machine(rec: Recorder, sub: SubCheck, tier, seed, n, shrink_budget):
    import hypothesis
    from hypothesis.stateful import run_state_machine_as_test

    info = {"rounds": 0}
    for rnd in range(2 if tier == "quick" else 4):
        info["rounds"] = rnd + 1
        state = {"first_fail_t": None, "best": None}

        def record(case, verdict: Verdict):
            """Called by the machine (teardown or on failure) with its op list."""
            if verdict.ok or verdict.bucket in rec.ignored:
                return True
            now = time.time()
            if state["first_fail_t"] is None:
                state["first_fail_t"] = now
            if now - state["first_fail_t"] > shrink_budget:
                return True
            state["best"] = (jsonable(case), verdict)
            return False

        Machine = sub.machine(rec, record)
        try:
            run_state_machine_as_test(
                hypothesis.seed(seed)(Machine),
                settings=_settings(n, tier, stateful_steps=sub.steps[tier]),
            )
        except HarnessError:
            raise
        except hypothesis.errors.FailedHealthCheck as e:
            raise HarnessError(f"health check: {e}") from e
        except BaseException as e:  # noqa: BLE001
            if state["best"] is None:
                if isinstance(e, (KeyboardInterrupt, SystemExit)):
                    raise
                raise HarnessError("".join(traceback.format_exception(e))) from e
        if state["best"] is None:
            break
        case, v = state["best"]
        rec.note_failure(case, v)
        rec.ignored.add(v.bucket)
    return info


def load_check(prop):
    import glob

    here = os.path.dirname(os.path.dirname(os.path.abspath(__file__)))
    cands = glob.glob(os.path.join(here, "checks", prop.lower() + "_*.py"))
    if len(cands) != 1:
        raise HarnessError(f"cannot find check module for {prop}: {cands}")
    modname = "checks." + os.path.basename(cands[0])[:-3]
    return importlib.import_module(modname)


def get_sub(mod, name) -> SubCheck:
    for s in mod.subchecks():
        if s.name == name:
            return s
    raise HarnessError(f"no sub-check {name} in {mod.__name__}")


def assert_source():
    src = os.environ.get("JINNS_SRC", "/repo")
    import jinns

    f = os.path.abspath(jinns.__file__)
    if not f.startswith(os.path.abspath(src) + os.sep):
        raise HarnessError(f"jinns imported from {f}, expected under {src}")
    return src


def main(argv):
    prop, subname, tier, seed, shard, nshards, out = argv
    seed, shard, nshards = int(seed), int(shard), int(nshards)
    t0 = time.time()
    result = {"property": prop, "sub": subname, "tier": tier, "seed": seed, "shard": shard,
              "status": "ok"}
    try:
        src = assert_source()
        mod = load_check(prop)
        sub = get_sub(mod, subname)
        known = findings_mod.load_for(prop, subname)
        rec = Recorder(prop, sub, src, known)
        # hand-written corner cases first
        if sub.explicit is not None:
            for case in sub.explicit():
                if shard == 0:
                    v = rec.evaluate(case)
                    if not v.ok and v.bucket not in rec.failures:
                        rec.note_failure(case, v)
                        rec.ignored.add(v.bucket)
        n_total = sub.counts[tier]
        n = max(1, n_total // nshards)
        hseed = seed * 1000 + shard
        shrink_budget = float(os.environ.get("VP_SHRINK_BUDGET", "20" if tier == "quick" else "240"))
        if sub.mode == "enum":
            info = _drive_enum(rec, sub, tier, shard, nshards)
        elif sub.mode == "given":
            info = _drive_given(rec, sub, tier, hseed, n, shrink_budget)
        elif sub.mode == "machine":
            info = _drive_machine(rec, sub, tier, hseed, n, shrink_budget)
        else:
            raise HarnessError(f"unknown mode {sub.mode}")
        result.update(
            evaluations=rec.evaluations,
            excluded=rec.excluded,
            nontrivial_hashes=sorted(rec.nontrivial_hashes),
            extra_nontrivial=rec.extra_nontrivial,
            distinct=len(rec.all_hashes),
            labels=rec.labels,
            samples=rec.samples,
            failures=list(rec.failures.values()),
            info=info,
            mode=sub.mode,
        )
    except HarnessError as e:
        result["status"] = "harness_error"
        result["error"] = str(e)[-6000:]
    except BaseException as e:  # noqa: BLE001
        result["status"] = "harness_error"
        result["error"] = "".join(traceback.format_exception(e))[-6000:]
    result["wall_s"] = time.time() - t0
    tmp = out + ".tmp"
    with open(tmp, "w") as f:
        json.dump(result, f)
    os.replace(tmp, out)
    return 0


if __name__ == "__main__":
    sys.exit(main(sys.argv[1:]))
