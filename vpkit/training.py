"""Training programs for jinns.solve (C07, C18, C19): builders from plain-JSON configs + the textbook reference loop."""
from __future__ import annotations

import contextlib

import functools

import numpy as np

from . import problems as P

# ------------------------------------------------------------------ static menu
def _mlp_out_scale(i, o, p):
    import jax.numpy as jnp

    return o * jnp.sum(p.eq_params["theta"])


OPTIMIZERS = {}


def optimizer(name):
    """Optimizers are created once per process (static argument of jitted functions, hashed by identity)."""
    import optax

    if name not in OPTIMIZERS:
        if name == "sgd":
            o = optax.sgd(0.05)
        elif name == "adam":
            o = optax.adam(0.02)
        elif name == "adamw":
            o = optax.adamw(0.02, weight_decay=0.01)
        elif name == "clip_adam":
            o = optax.chain(optax.clip_by_global_norm(0.5), optax.adam(0.02))
        elif name == "sgd_expdecay":
            o = optax.sgd(optax.exponential_decay(0.05, transition_steps=2, decay_rate=0.5))
        elif name == "sgd_piecewise":
            o = optax.sgd(optax.piecewise_constant_schedule(0.05, {2: 0.1, 4: 3.0}))
        elif name == "sgd_momentum":
            o = optax.sgd(0.03, momentum=0.9)
        else:
            raise ValueError(name)
        OPTIMIZERS[name] = o
    return OPTIMIZERS[name]


OPT_NAMES = ["sgd", "adam", "adamw", "clip_adam", "sgd_expdecay", "sgd_piecewise", "sgd_momentum"]


def make_network(cfg):
    """analytic field network or a small real MLP; returns (u, nn_params)."""
    import equinox as eqx
    import jax
    import jinns

    kind = cfg["kind"]
    eq_type = P.EQ_TYPES[kind]
    if cfg["net"]["type"] == "field":
        return P.make_net({"field": cfg["net"]["field"], "transform": "scale"}, eq_type)
    d = cfg["dim"]
    din = d + (0 if kind == "statio" else 1)
    act = {"tanh": jax.nn.tanh, "softplus": jax.nn.softplus, "sin": jax.numpy.sin}[cfg["net"]["act"]]
    h = cfg["net"]["width"]
    eqx_list = ((eqx.nn.Linear, din, h), (act,), (eqx.nn.Linear, h, 1))
    u = jinns.utils.create_PINN(jax.random.PRNGKey(cfg["net"]["key"]), eqx_list, eq_type, d, output_transform=_mlp_out_scale)
    return u, u.init_params()


def make_data(cfg):
    import jax
    import jax.numpy as jnp
    import jinns

    kind = cfg["kind"]
    k = jax.random.PRNGKey(cfg["data_key"])
    if kind == "ode":
        data = jinns.data.DataGeneratorODE(k, cfg["nt"], 0.0, 1.5, cfg["bt"], method="uniform")
        N = cfg["bt"]
    elif kind == "statio":
        d = cfg["dim"]
        data = jinns.data.CubicMeshPDEStatio(key=k, n=cfg["n"], nb=4 * cfg["fn"] if d == 2 else 2, omega_batch_size=cfg["bx"],
                                             omega_border_batch_size=(cfg["bb"] if d == 2 else 2) if cfg.get("border") else None,
                                             dim=d, min_pts=(-1.0,) * d, max_pts=(1.5,) * d)
        N = cfg["bx"]
    else:
        d = cfg["dim"]
        data = jinns.data.CubicMeshPDENonStatio(key=k, n=cfg["n"], nb=4 * cfg["fn"] if d == 2 else 2, nt=cfg["nt"],
                                                omega_batch_size=cfg["bx"], temporal_batch_size=cfg["bt"],
                                                omega_border_batch_size=(cfg["bb"] if d == 2 else 2) if cfg.get("border") else None,
                                                dim=d, min_pts=(-1.0,) * d, max_pts=(1.5,) * d, tmin=0.0, tmax=1.0)
        N = cfg["bx"] * cfg["bt"]
    param_data = obs_data = None
    if cfg.get("param_gen"):
        pg = cfg["param_gen"]
        param_data = jinns.data.DataGeneratorParameter(jax.random.PRNGKey(pg["key"]), pg["n"], N,
                                                       param_ranges={"alpha": (0.5, 1.5)})
    if cfg.get("obs_gen"):
        og = cfg["obs_gen"]
        din = (cfg["dim"] if kind != "ode" else 0) + (0 if kind == "statio" else 1)
        idx = jnp.arange(og["n"], dtype=float)
        pin = jnp.stack([0.1 + 0.07 * idx * (j + 1) % 1.0 for j in range(din)], axis=1)
        val = (jnp.sin(idx) * 0.5)[:, None]
        obs_data = jinns.data.DataGeneratorObservations(jax.random.PRNGKey(og["key"]), N, pin, val)
    return data, param_data, obs_data


def make_program(cfg):
    """Returns dict(loss, params, data, param_data, obs_data, optimizer, tracked)."""
    import warnings

    import equinox as eqx
    import jax
    import jax.numpy as jnp
    import jinns

    kind = cfg["kind"]
    if kind == "system_ode":
        from . import systems as S

        loss, params, _ = S.build_system(cfg["sys"])
        data = jinns.data.DataGeneratorODE(jax.random.PRNGKey(cfg["data_key"]), cfg["nt"], 0.0, 1.5, cfg["bt"], method="uniform")
        tracked = None
        if cfg.get("tracked") in ("one", "all"):
            tracked = jinns.parameters.ParamsDict(nn_params=None, eq_params={k: (True if (k == "theta" or cfg["tracked"] == "all") else None)
                                                                             for k in cfg["sys"]["eq_params"]})
        return dict(loss=loss, params=params, data=data, param_data=None, obs_data=None, optimizer=optimizer(cfg["opt"]),
                    tracked=tracked)
    u, nn = make_network(cfg)
    eqp = {"theta": jnp.asarray(cfg["theta"], dtype=float), "alpha": jnp.asarray(cfg["alpha"], dtype=float)}
    coef = list(cfg["coef"])
    names = {"theta": 0.0, "alpha": 0.0}
    if cfg.get("trip") is not None:
        eqp["trip"] = jnp.asarray(0.0)
        names["trip"] = 0.0
        coef = coef + [0.0]  # pnames are sorted: alpha, theta, trip
    params = jinns.parameters.Params(nn_params=nn, eq_params=eqp)
    spec = {"kind": kind, "eq_params": names, "eq": {"coef": [coef]}, "hetero": None}
    dyn = P.make_equation(spec)
    if cfg.get("trip") is not None:
        dyn = nan_wrappers()[kind](inner=dyn, k=jnp.asarray(float(cfg["trip"])))
    DK = {"ode": jinns.parameters.DerivativeKeysODE, "statio": jinns.parameters.DerivativeKeysPDEStatio,
          "nonstatio": jinns.parameters.DerivativeKeysPDENonStatio}[kind]
    dk = DK.from_str(params=params, dyn_loss="both")
    with warnings.catch_warnings():
        warnings.simplefilter("ignore")
        if kind == "ode":
            loss = jinns.loss.LossODE(u=u, dynamic_loss=dyn, derivative_keys=dk, initial_condition=(0.0, cfg["u0"]),
                                      loss_weights=jinns.loss.LossWeightsODE(dyn_loss=1.0, initial_condition=0.5,
                                                                             observations=0.25), params=params)
        elif kind == "statio":
            kw = {}
            if cfg.get("border"):
                kw = dict(omega_boundary_fun=_bfun_statio, omega_boundary_condition="dirichlet")
            loss = jinns.loss.LossPDEStatio(u=u, dynamic_loss=dyn, derivative_keys=dk, params=params,
                                            loss_weights=jinns.loss.LossWeightsPDEStatio(dyn_loss=1.0, boundary_loss=0.5,
                                                                                         observations=0.25), **kw)
        else:
            kw = {}
            if cfg.get("border"):
                kw = dict(omega_boundary_fun=_bfun_nonstatio, omega_boundary_condition="dirichlet")
            loss = jinns.loss.LossPDENonStatio(u=u, dynamic_loss=dyn, derivative_keys=dk, params=params,
                                               initial_condition_fun=_ic_fun,
                                               loss_weights=jinns.loss.LossWeightsPDENonStatio(
                                                   dyn_loss=1.0, boundary_loss=0.5, observations=0.25, initial_condition=0.5),
                                               **kw)
    data, param_data, obs_data = make_data(cfg)
    tracked = None
    tr = cfg.get("tracked", "none")
    if tr == "one":
        tracked = jinns.parameters.Params(nn_params=None, eq_params={"theta": True, "alpha": None})
    elif tr == "all":
        tracked = jinns.parameters.Params(nn_params=None, eq_params={"theta": True, "alpha": True})
    elif tr == "nn":
        nn_t = jax.tree_util.tree_map(lambda _: None, nn)
        leaves = jax.tree_util.tree_leaves(nn)
        first = leaves[0]
        nn_t = eqx.tree_at(lambda m: jax.tree_util.tree_leaves(m, is_leaf=lambda x: x is None)[0], nn_t, True,
                           is_leaf=lambda x: x is None)
        tracked = jinns.parameters.Params(nn_params=nn_t, eq_params={"theta": True, "alpha": None})
        del first
    if tracked is not None and cfg.get("trip") is not None:
        tracked = jinns.parameters.Params(nn_params=tracked.nn_params, eq_params=dict(tracked.eq_params, trip=None))
    return dict(loss=loss, params=params, data=data, param_data=param_data, obs_data=obs_data,
                optimizer=optimizer(cfg["opt"]), tracked=tracked)


def _bfun_statio(x):
    import jax.numpy as jnp

    return 0.25 * jnp.sin(x[-1]) + 0.1


def _bfun_nonstatio(t, x):
    import jax.numpy as jnp

    return 0.25 * jnp.sin(x[-1] + t[0]) + 0.1


def _ic_fun(x):
    import jax.numpy as jnp

    return 0.5 * jnp.cos(x[0])


@functools.lru_cache(maxsize=None)
def nan_wrappers():
    """Dynamic losses whose residual becomes NaN once the equation parameter `trip` reaches k (loss-value fault)."""
    import equinox as eqx
    import jax.numpy as jnp
    from jinns.loss import ODE, PDENonStatio, PDEStatio

    def poison(params, k):
        return jnp.where(jnp.sum(params.eq_params["trip"]) >= k - 0.5, jnp.nan, 0.0)

    class NaNODE(ODE):
        inner: eqx.Module
        k: jnp.ndarray

        def equation(self, t, u, params):
            return self.inner.equation(t, u, params) + poison(params, self.k)

    class NaNStatio(PDEStatio):
        inner: eqx.Module
        k: jnp.ndarray

        def equation(self, x, u, params):
            return self.inner.equation(x, u, params) + poison(params, self.k)

    class NaNNonStatio(PDENonStatio):
        inner: eqx.Module
        k: jnp.ndarray

        def equation(self, t, x, u, params):
            return self.inner.equation(t, x, u, params) + poison(params, self.k)

    return {"ode": NaNODE, "statio": NaNStatio, "nonstatio": NaNNonStatio}


def faulty_optimizer(base, k, origin):
    """optax transformation owning a step counter: at step k a chosen leaf of the gradient / of the update becomes NaN;
    the equation parameter `trip` (when present) is advanced by exactly +1 per step."""
    import jax
    import jax.numpy as jnp
    import optax

    def poison(tree, hit, which):
        if which in ("nn", "nn_partial"):
            leaves, treedef = jax.tree_util.tree_flatten(tree.nn_params)
            if which == "nn":
                leaves = [jnp.where(hit, jnp.nan, leaves[0])] + leaves[1:]
            else:
                # only ONE entry of the largest leaf becomes NaN (no leaf is entirely NaN)
                j = max(range(len(leaves)), key=lambda i: leaves[i].size)
                flat = leaves[j].reshape(-1)
                flat = flat.at[0].set(jnp.where(hit, jnp.nan, flat[0]))
                leaves = leaves[:j] + [flat.reshape(leaves[j].shape)] + leaves[j + 1:]
            import equinox as eqx

            return eqx.tree_at(lambda t: t.nn_params, tree, jax.tree_util.tree_unflatten(treedef, leaves))
        import equinox as eqx

        return eqx.tree_at(lambda t: t.eq_params["theta"], tree, jnp.where(hit, jnp.nan, tree.eq_params["theta"]))

    def init(params):
        return (jnp.zeros((), dtype=jnp.int32), base.init(params))

    def update(grads, state, params=None):
        count, inner = state
        hit = count == k
        if origin == "grad_nn":
            grads = poison(grads, hit, "nn")
        elif origin == "grad_nn_partial":
            grads = poison(grads, hit, "nn_partial")
        elif origin == "grad_eq":
            grads = poison(grads, hit, "eq")
        updates, inner = base.update(grads, inner, params)
        if origin == "update_nn":
            updates = poison(updates, hit, "nn")
        elif origin == "update_nn_partial":
            updates = poison(updates, hit, "nn_partial")
        elif origin == "update_eq":
            updates = poison(updates, hit, "eq")
        if "trip" in updates.eq_params:
            import equinox as eqx

            keep = jnp.isnan(jnp.sum(updates.eq_params["trip"]))  # a NaN loss poisons every update, trip included
            updates = eqx.tree_at(lambda t: t.eq_params["trip"], updates,
                                  jnp.where(keep, updates.eq_params["trip"], jnp.ones_like(updates.eq_params["trip"])))
        return updates, (count + 1, inner)

    return optax.GradientTransformation(init, update)


# ------------------------------------------------------------------ reference loop
def next_batch(data, param_data, obs_data):
    import jinns

    data, batch = data.get_batch()
    if param_data is not None:
        param_data, pb = param_data.get_batch()
        batch = jinns.data.append_param_batch(batch, pb)
    if obs_data is not None:
        obs_data, ob = obs_data.get_batch()
        batch = jinns.data.append_obs_batch(batch, ob)
    return batch, data, param_data, obs_data


def reference_loop(prog, n_iter, opt_state=None, params=None, data=None, stop_on_nan=False):
    """The textbook loop of the property statement, eager."""
    import jax
    import optax

    loss, opt = prog["loss"], prog["optimizer"]
    params = prog["params"] if params is None else params
    data = prog["data"] if data is None else data
    pdat, odat = prog["param_data"], prog["obs_data"]
    if opt_state is None:
        opt_state = opt.init(params)
    hist = {"loss": [], "terms": [], "params": [params], "batches": []}
    vg = jax.value_and_grad(lambda p, b: loss.evaluate(p, b), has_aux=True)
    for i in range(n_iter):
        batch, data, pdat, odat = next_batch(data, pdat, odat)
        (L, terms), g = vg(params, batch)
        updates, opt_state = opt.update(g, opt_state, params)
        params = optax.apply_updates(params, updates)
        hist["loss"].append(float(L))
        hist["terms"].append({k: float(v) for k, v in terms.items()})
        hist["params"].append(params)
        if stop_on_nan and any(bool(np.any(np.isnan(np.asarray(l)))) for l in jax.tree_util.tree_leaves(params)):
            break
    hist["final_params"] = params
    hist["opt_state"] = opt_state
    hist["data"] = data
    return hist


def tree_close(a, b, rtol=1e-8, atol=1e-10, equal_nan=False):
    import jax

    la, ta = jax.tree_util.tree_flatten(a)
    lb, tb = jax.tree_util.tree_flatten(b)
    if ta != tb or len(la) != len(lb):
        return False, "structure"
    for i, (x, y) in enumerate(zip(la, lb)):
        x, y = _plain(x), _plain(y)
        if x.shape != y.shape:
            return False, f"leaf {i} shape {x.shape} vs {y.shape}"
        if x.dtype.kind in "iub":
            if not np.array_equal(x, y):
                return False, f"leaf {i} integer mismatch"
        elif not np.allclose(x, y, rtol=rtol, atol=atol, equal_nan=equal_nan):
            return False, f"leaf {i} max|diff|={float(np.nanmax(np.abs(x - y)))}"
    return True, ""


def _plain(x):
    import jax

    try:
        if hasattr(x, "dtype") and jax.dtypes.issubdtype(x.dtype, jax.dtypes.prng_key):
            x = jax.random.key_data(x)
    except Exception:
        pass
    return np.asarray(x)


def gen_state_equal(a, b):
    """exact comparison of two generator states (index, store, key)."""
    import jax

    la, ta = jax.tree_util.tree_flatten(a)
    lb, tb = jax.tree_util.tree_flatten(b)
    if ta != tb:
        return False
    return all(np.array_equal(_plain(x), _plain(y)) for x, y in zip(la, lb))


# ------------------------------------------------------------------ strategy
def program_cfgs(kinds=("ode", "statio", "nonstatio", "system_ode"), aux=True, max_iter=8):
    from hypothesis import strategies as st

    from .fields import field_specs, q16
    from .strats import pos16

    @st.composite
    def s(draw):
        kind = draw(st.sampled_from(list(kinds)))
        if kind == "system_ode":
            from .systems import nfeat

            names = draw(st.sampled_from([["u", "v"], ["v", "u"], ["n1", "0"]]))
            enames = draw(st.sampled_from([["e1"], ["e1", "e2"], list(names)]))
            eqp = {"theta": draw(pos16(0.5, 1.5)), "phi": draw(q16(-1, 1))}
            sys = {"kind": "ode", "dim": 0, "hetero": None, "param_batch": None, "box": {"min": [0.0], "max": [1.5]},
                   "unknowns": {n: {"field": draw(field_specs(1, 1, nsin=(1, 2), gauss=False)), "transform": "affine"} for n in names},
                   "eq_params": eqp,
                   "equations": {e: {"coef": [[draw(q16(-1, 1, nonzero=True)) for _ in range(nfeat(2, 2))]]} for e in enames},
                   "ic": {n: {"t0": 0.0, "u0": draw(q16(-1, 1))} for n in names}, "obs": None, "boundary": None, "norm": None,
                   "batch": {"t": [0.5]},
                   "w": {"dyn_loss": draw(pos16()), "initial_condition": {n: draw(pos16()) for n in reversed(names)}}}
            nt = draw(st.integers(1, 7))
            return {"kind": kind, "dim": 0, "sys": sys, "opt": draw(st.sampled_from(OPT_NAMES)), "nt": nt,
                    "bt": draw(st.integers(1, min(nt, 3))), "data_key": draw(st.integers(0, 2**31 - 1)),
                    "tracked": draw(st.sampled_from(["none", "one", "all"])), "n_iter": draw(st.integers(1, max_iter)),
                    "net": {"type": "field"}, "verbose": draw(st.booleans()), "print_every": draw(st.sampled_from([1, 2, 3, 1000]))}
        d = 0 if kind == "ode" else draw(st.sampled_from([1, 2]))
        din = d + (0 if kind == "statio" else 1)
        cfg = {"kind": kind, "dim": d, "opt": draw(st.sampled_from(OPT_NAMES)), "theta": draw(pos16(0.5, 1.5)),
               "alpha": draw(pos16(0.5, 1.5)), "u0": draw(q16(-1, 1)), "data_key": draw(st.integers(0, 2**31 - 1)),
               "tracked": draw(st.sampled_from(["none", "one", "all", "nn"])), "n_iter": draw(st.integers(1, max_iter))}
        if draw(st.booleans()):
            cfg["net"] = {"type": "field", "field": draw(field_specs(din, 1, nsin=(1, 2), gauss=False))}
        else:
            cfg["net"] = {"type": "mlp", "width": draw(st.integers(2, 5)), "act": draw(st.sampled_from(["tanh", "softplus", "sin"])),
                          "key": draw(st.integers(0, 1000))}
        cfg["coef"] = [draw(q16(-1, 1, nonzero=True)), draw(q16(-1, 1, nonzero=True)), draw(q16(-1, 1)), draw(q16(-1, 1)),
                       draw(q16(-0.5, 0.5)), draw(q16(-1, 1)), draw(q16(-1, 1, nonzero=True)), draw(q16(-1, 1, nonzero=True))]
        # store sizes small enough that the run crosses an epoch boundary
        if kind in ("ode", "nonstatio"):
            cfg["nt"] = draw(st.integers(1, 7))
            cfg["bt"] = draw(st.integers(1, min(cfg["nt"], 3)))
        if kind != "ode":
            cfg["n"] = draw(st.integers(1, 7))
            cfg["bx"] = draw(st.integers(1, min(cfg["n"], 3)))
            cfg["border"] = draw(st.booleans())
            cfg["fn"] = draw(st.integers(1, 3))
            cfg["bb"] = draw(st.integers(1, cfg["fn"]))
        if aux and draw(st.booleans()):
            cfg["param_gen"] = {"n": draw(st.integers(9, 12)), "key": draw(st.integers(0, 1000))}
            if kind != "ode" and cfg.get("border") and d == 2:
                cfg["border"] = False  # with a parameter batch the border batch needs as many rows as the interior
            if kind == "statio" and d == 1 and cfg.get("border") and cfg["bx"] != 1:
                cfg["border"] = False
            if kind == "nonstatio" and d == 1 and cfg.get("border") and cfg["bx"] != 1:
                cfg["border"] = False
        if aux and draw(st.booleans()):
            cfg["obs_gen"] = {"n": draw(st.integers(9, 12)), "key": draw(st.integers(0, 1000))}
            # obs_batch_sharding selects solve()'s non-jitted python loop (device_put of the observation batch)
            cfg["sharding"] = draw(st.booleans())
        # solve()'s printing options select different loop-exit / printing code; they must not change any result
        cfg["verbose"] = draw(st.booleans())
        cfg["print_every"] = draw(st.sampled_from([1, 2, 3, 1000]))
        return cfg

    return s()


def verbosity(cfg):
    """solve() keyword arguments for the printing options of a program configuration (default: quiet)."""
    return {"verbose": bool(cfg.get("verbose", False)), "print_loss_every": int(cfg.get("print_every", 1000))}


@contextlib.contextmanager
def quiet():
    """Swallows what a verbose solve() prints (python prints and jax.debug callbacks) so that worker logs stay readable."""
    import io

    import jax

    with contextlib.redirect_stdout(io.StringIO()):
        yield
        jax.effects_barrier()


def tracked_mismatch(tracked, stored, params_after_each_iter, n_total, rtol=1e-7):
    """Compares the tracked-parameter histories returned by solve with the post-update parameters of the reference
    loop (entries beyond the reference length must keep their initial value 0).  Returns None or a detail dict."""
    import jax

    bad = []

    def cmp(t, s, *ps):
        if t is None:
            if s is not None:
                bad.append({"why": "untracked parameter stored"})
            return None
        if s is None:
            bad.append({"why": "tracked parameter not stored"})
            return None
        s = np.asarray(s, dtype=np.float64)
        w = np.zeros_like(s)
        if ps:
            w[: len(ps)] = np.stack([np.asarray(p, dtype=np.float64) for p in ps])
        if s.shape[0] != n_total or not np.allclose(s, w, rtol=rtol, atol=1e-12, equal_nan=True):
            bad.append({"why": "history differs", "got": s.reshape(s.shape[0], -1)[:, 0].tolist(),
                        "want": w.reshape(w.shape[0], -1)[:, 0].tolist()})
        return None

    jax.tree_util.tree_map(cmp, tracked, stored, *params_after_each_iter, is_leaf=lambda x: x is None)
    return bad[0] if bad else None


def diverges(losses):
    """True when a reference loss history is non-finite or explodes (> 1e6 x its first value): such programs amplify the
    last-bit differences between eager and jitted arithmetic beyond any fixed tolerance and are not compared."""
    a = np.asarray(losses, dtype=np.float64)
    return (not np.all(np.isfinite(a))) or bool(np.max(np.abs(a)) > 1e6 * (1.0 + abs(a[0])))


def ill_conditioned(prog, n_iter, ref, got_losses, **kw):
    """Called only when solve() and the reference loop disagree: re-runs the reference loop from parameters perturbed by
    a relative 1e-12.  If that alone moves the loss history by at least a thousandth of the observed disagreement, the
    program amplifies rounding noise (chaotic training) and cannot discriminate: the case is skipped.  A real defect in a
    well-conditioned program gives a disagreement many orders of magnitude above the perturbation response."""
    import jax

    def rel(a, b):
        a, b = np.asarray(a, dtype=np.float64), np.asarray(b, dtype=np.float64)
        m = min(len(a), len(b))
        with np.errstate(all="ignore"):
            d = np.abs(a[:m] - b[:m]) / (1e-300 + np.abs(b[:m]))
        d = d[np.isfinite(d)]
        return float(np.max(d)) if d.size else 0.0

    observed = rel(got_losses, ref["loss"])
    if observed == 0.0:
        return False
    p2 = jax.tree_util.tree_map(lambda x: x * (1.0 + 1e-12) if hasattr(x, "dtype") and np.issubdtype(np.asarray(x).dtype, np.floating) else x,
                                prog["params"])
    ref2 = reference_loop(prog, n_iter, params=p2, **kw)
    response = rel(ref2["loss"], ref["loss"])
    return response >= 1e-3 * observed
