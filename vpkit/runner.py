"""Parent runner: shards sub-checks into fresh worker interpreters, merges evidence,
prints VIOLATION / KNOWN-FINDING lines, sets the exit code.

exit 0: property held on everything explored (KNOWN-FINDING lines allowed)
exit 1: at least one unlisted violation (one VIOLATION line per distinct bucket)
exit 2: harness error (never a VIOLATION line)
"""
from __future__ import annotations

import glob
import json
import os
import subprocess
import sys
import tempfile
import time
from concurrent.futures import ThreadPoolExecutor

HERE = os.path.dirname(os.path.dirname(os.path.abspath(__file__)))
_TMP = "/var/tmp" if os.path.isdir("/var/tmp") else None  # scratch space outside /repo and /verif
PY = os.environ.get("VP_PYTHON", "/venv/bin/python")


def worker_env(x64: bool):
    env = dict(os.environ)
    src = env.get("JINNS_SRC", "/repo")
    env["JINNS_SRC"] = src
    env["PYTHONPATH"] = src + os.pathsep + HERE
    env["JINNS_VERIF"] = "1"
    env["PYTHONHASHSEED"] = "0"
    env["JAX_PLATFORMS"] = "cpu"
    env["JAX_ENABLE_X64"] = "1" if x64 else "0"
    env["OMP_NUM_THREADS"] = "1"
    env["OPENBLAS_NUM_THREADS"] = "1"
    env["MKL_NUM_THREADS"] = "1"
    env["XLA_FLAGS"] = "--xla_cpu_multi_thread_eigen=false intra_op_parallelism_threads=1"
    env["PYTHONDONTWRITEBYTECODE"] = "1"
    env["PYTHONWARNINGS"] = "ignore"
    env["TF_CPP_MIN_LOG_LEVEL"] = "3"
    return env


def list_subchecks(prop):
    """Asks a worker interpreter for the sub-check table (name, mode, shards, x64)."""
    code = (
        "import json,sys\n"
        "from vpkit.worker import load_check\n"
        f"m=load_check({prop!r})\n"
        "out=[]\n"
        "for s in m.subchecks():\n"
        "    out.append(dict(name=s.name,mode=s.mode,shards=s.shards,x64=s.x64,counts=s.counts,"
        "minfrac=s.min_nontrivial_frac,doc=s.doc,exhaustive=s.exhaustive))\n"
        "print('@@'+json.dumps(dict(subs=out,rule=getattr(m,'RULE',''),assumptions=getattr(m,'ASSUMPTIONS',[]),"
        "level=getattr(m,'LEVEL','exploration'))))\n"
    )
    p = subprocess.run([PY, "-c", code], env=worker_env(True), cwd=HERE, capture_output=True, text=True)
    for line in p.stdout.splitlines():
        if line.startswith("@@"):
            return json.loads(line[2:])
    raise RuntimeError("cannot list sub-checks:\n" + p.stdout[-2000:] + p.stderr[-4000:])


def run_worker(prop, sub, tier, seed, shard, nshards, x64, outdir, timeout):
    out = os.path.join(outdir, f"{sub}.{shard}.json")
    cmd = [PY, "-m", "vpkit.worker", prop, sub, tier, str(seed), str(shard), str(nshards), out]
    t0 = time.time()
    try:
        p = subprocess.run(cmd, env=worker_env(x64), cwd=HERE, capture_output=True, text=True, timeout=timeout)
        stderr = p.stderr
        rc = p.returncode
    except subprocess.TimeoutExpired as e:
        stderr = (e.stderr or b"").decode() if isinstance(e.stderr, bytes) else (e.stderr or "")
        rc = -9
    if os.path.exists(out):
        with open(out) as f:
            res = json.load(f)
    else:
        res = {"property": prop, "sub": sub, "shard": shard, "status": "harness_error",
               "error": f"worker died rc={rc} after {time.time()-t0:.0f}s\n" + stderr[-4000:]}
    return res


def replay_dir(prop):
    d = os.environ.get("VP_REPLAY_DIR", os.path.join(HERE, "replays"))
    d = os.path.join(d, prop)
    os.makedirs(d, exist_ok=True)
    return d


def write_replay(prop, sub, x64, failure):
    from .core import case_hash

    d = replay_dir(prop)
    path = os.path.join(d, f"{sub}-{case_hash(failure['case'])}.json")
    with open(path, "w") as f:
        json.dump({"property": prop, "subcheck": sub, "x64": x64, "case": failure["case"],
                   "bucket": failure["bucket"], "detail": failure.get("detail")}, f, indent=1)
    return path


def regress_cases(prop):
    out = []
    for p in sorted(glob.glob(os.path.join(HERE, "regress", prop, "*.json"))):
        with open(p) as f:
            out.append((p, json.load(f)))
    return out


def run_single_case(prop, sub, case, x64, timeout=900):
    """Runs one case in a fresh interpreter; returns verdict dict or {'harness_error':...}."""
    with tempfile.TemporaryDirectory(prefix="vp_case_", dir=_TMP) as td:
        cf = os.path.join(td, "case.json")
        of = os.path.join(td, "out.json")
        with open(cf, "w") as f:
            json.dump({"property": prop, "subcheck": sub, "case": case}, f)
        cmd = [PY, "-m", "vpkit.replay", cf, of]
        try:
            p = subprocess.run(cmd, env=worker_env(x64), cwd=HERE, capture_output=True, text=True, timeout=timeout)
        except subprocess.TimeoutExpired:
            return {"harness_error": "timeout"}
        if os.path.exists(of):
            with open(of) as f:
                return json.load(f)
        return {"harness_error": p.stderr[-4000:]}


def check(prop, tier, seed, only_sub=None, jobs=None):
    from . import findings as F

    t0 = time.time()
    table = list_subchecks(prop)
    subs = [s for s in table["subs"] if only_sub in (None, s["name"])]
    jobs = jobs or int(os.environ.get("VP_JOBS", "16" if tier == "thorough" else "8"))
    timeout = float(os.environ.get("VP_WORKER_TIMEOUT", "1500" if tier == "quick" else "14000"))
    violations = []  # (bucket, replay path)
    known_lines = []
    harness_errors = []

    # 1. regression tier: committed minimal cases, replayed first (in parallel, fresh interpreters)
    regress_run = 0
    rcases = [(path, r) for path, r in regress_cases(prop) if not (only_sub and r["subcheck"] != only_sub)]
    with ThreadPoolExecutor(max_workers=jobs) as ex:
        rres = list(ex.map(lambda pr: run_single_case(prop, pr[1]["subcheck"], pr[1]["case"], pr[1].get("x64", True)), rcases))
    for (path, r), res in zip(rcases, rres):
        regress_run += 1
        if "harness_error" in res:
            harness_errors.append(f"regress {path}: {res['harness_error']}")
        elif not res["ok"]:
            f = F.attribute(F.load_for(prop, r["subcheck"]), r["case"], res["bucket"])
            if f is None:
                rp = write_replay(prop, r["subcheck"], r.get("x64", True),
                                  {"case": r["case"], "bucket": res["bucket"], "detail": res.get("detail")})
                violations.append((r["subcheck"], res["bucket"], rp))

    # 2. known-finding probes
    for f in F.load_for(prop):
        pr = f.get("probe")
        if not pr or (only_sub and pr["subcheck"] != only_sub):
            continue
        res = run_single_case(prop, pr["subcheck"], pr["case"], pr.get("x64", True))
        if "harness_error" in res:
            harness_errors.append(f"probe {f['id']}: {res['harness_error']}")
        elif not res["ok"]:
            import re

            if re.search(f.get("bucket", "$^"), res["bucket"] or ""):
                known_lines.append(f"KNOWN-FINDING: property={prop} {f['id']}: {f['what']}")
            else:
                rp = write_replay(prop, pr["subcheck"], pr.get("x64", True),
                                  {"case": pr["case"], "bucket": res["bucket"], "detail": res.get("detail")})
                violations.append((pr["subcheck"], res["bucket"], rp))
        else:
            print(f"note: known finding {f['id']} no longer reproduces on this tree")

    # 3. generated search
    with tempfile.TemporaryDirectory(prefix=f"vp_{prop}_", dir=_TMP) as td:
        tasks = []
        for s in subs:
            n = int(s["shards"][tier])
            for sh in range(n):
                tasks.append((s, sh, n))
        with ThreadPoolExecutor(max_workers=jobs) as ex:
            futs = [ex.submit(run_worker, prop, s["name"], tier, seed, sh, n, s["x64"], td, timeout)
                    for (s, sh, n) in tasks]
            results = [f.result() for f in futs]

    per_sub = {}
    for s in subs:
        per_sub[s["name"]] = dict(evaluations=0, excluded=0, nontrivial=set(), labels={}, samples=[],
                                  failures={}, mode=s["mode"], wall_s=0.0,
                                  exhaustive=(s["mode"] == "enum" and bool(s.get("exhaustive", {}).get(tier, True))),
                                  doc=s["doc"])
    for r in results:
        if r.get("status") != "ok":
            harness_errors.append(f"{r.get('sub')}[{r.get('shard')}]: {r.get('error')}")
            continue
        a = per_sub[r["sub"]]
        a["evaluations"] += r["evaluations"]
        a["excluded"] += r["excluded"]
        a["nontrivial"].update(r["nontrivial_hashes"])
        a["extra_nt"] = a.get("extra_nt", 0) + r.get("extra_nontrivial", 0)
        for k, v in r["labels"].items():
            a["labels"][k] = a["labels"].get(k, 0) + v
        if len(a["samples"]) < 3:
            a["samples"].extend(r["samples"][: 3 - len(a["samples"])])
        a["wall_s"] = max(a["wall_s"], r["wall_s"])
        for fl in r["failures"]:
            a["failures"].setdefault(fl["bucket"], fl)

    x64_of = {s["name"]: s["x64"] for s in subs}
    minfrac = {s["name"]: s["minfrac"] for s in subs}
    for name, a in per_sub.items():
        for bucket, fl in a["failures"].items():
            f = F.attribute(F.load_for(prop, name), fl["case"], bucket)
            if f is not None:
                line = f"KNOWN-FINDING: property={prop} {f['id']}: {f['what']}"
                if line not in known_lines:
                    known_lines.append(line)
                continue
            rp = write_replay(prop, name, x64_of[name], fl)
            violations.append((name, bucket, rp))
        if a["evaluations"] > 0 and not a["failures"]:
            frac = (len(a["nontrivial"]) + a.get("extra_nt", 0)) / max(1, a["evaluations"])
            # distinct non-trivial cases over evaluations; enumerations and machines are exempt
            if a["mode"] == "given" and frac < minfrac[name]:
                harness_errors.append(f"{name}: non-trivial fraction {frac:.2f} < {minfrac[name]} (generator must be fixed)")

    wall = time.time() - t0
    evaluations = sum(a["evaluations"] for a in per_sub.values())
    distinct_nt = sum(len(a["nontrivial"]) + a.get("extra_nt", 0) for a in per_sub.values())
    def _abbrev(o):
        # evidence samples of large-batch cases: long lists are shown by their first entries and their length
        if isinstance(o, dict):
            return {k: _abbrev(v) for k, v in o.items()}
        if isinstance(o, list):
            return [_abbrev(v) for v in o[:6]] + [f"... ({len(o) - 6} more entries)"] if len(o) > 24 else [_abbrev(v) for v in o]
        return o

    samples = []
    for name, a in per_sub.items():
        for smp in a["samples"][:2]:
            samples.append(_abbrev(dict(subcheck=name, **smp)))
    if not samples:  # nothing passed: show the failing cases instead
        for name, a in per_sub.items():
            for bucket, fl in list(a["failures"].items())[:2]:
                samples.append(dict(subcheck=name, case=fl["case"], failing_bucket=bucket))
    if not samples:
        samples.append({"note": "no case was executed (harness error)"})
    ev = {
        "property_id": prop,
        "tier": tier,
        "seed": seed,
        "level": table.get("level", "exploration"),
        "coverage": {
            "evaluations": evaluations,
            "distinct_nontrivial": distinct_nt,
            "rule": table.get("rule", ""),
            "samples": samples,
            "exhaustive": bool(subs) and all(a["exhaustive"] for a in per_sub.values()),
            "regression_cases_replayed": regress_run,
            "excluded_by_known_findings": sum(a["excluded"] for a in per_sub.values()),
            "subchecks": {
                name: {
                    "mode": a["mode"],
                    "what": a["doc"],
                    "evaluations": a["evaluations"],
                    "distinct_nontrivial": len(a["nontrivial"]) + a.get("extra_nt", 0),
                    "excluded_by_known_findings": a["excluded"],
                    "exhaustive_over_its_finite_space": a["exhaustive"],
                    "labels": dict(sorted(a["labels"].items())),
                    "failing_buckets": sorted(a["failures"].keys()),
                    "wall_s": round(a["wall_s"], 1),
                }
                for name, a in per_sub.items()
            },
            "known_findings_reported": known_lines,
            "harness_errors": harness_errors[:5],
        },
        "assumptions": table.get("assumptions", []),
        "wall_s": round(wall, 2),
        "violations": len(violations),
    }
    if only_sub is None and not os.environ.get("VP_NO_EVIDENCE"):
        evdir = os.path.join(HERE, "evidence")
        os.makedirs(evdir, exist_ok=True)
        tmp = os.path.join(evdir, f".{prop}.json.tmp")
        with open(tmp, "w") as f:
            json.dump(ev, f, indent=1)
        os.replace(tmp, os.path.join(evdir, f"{prop}.json"))
        try:
            validate_evidence(ev)
        except Exception as e:  # noqa: BLE001
            harness_errors.append(f"evidence file does not validate: {str(e)[:500]}")

    for line in known_lines:
        print(line)
    seen = set()
    for name, bucket, rp in violations:
        if (name, bucket) in seen:
            continue
        seen.add((name, bucket))
        print(f"VIOLATION property={prop} replay={rp}")
        print(f"  subcheck={name} bucket={bucket}")
    print(f"[{prop} {tier} seed={seed}] evaluations={evaluations} distinct_nontrivial={distinct_nt} "
          f"violations={len(seen)} known={len(known_lines)} harness_errors={len(harness_errors)} wall={wall:.0f}s")
    for name, a in per_sub.items():
        print(f"   {name:34s} {a['mode']:8s} n={a['evaluations']:6d} nt={len(a['nontrivial']) + a.get('extra_nt', 0):6d} "
              f"excl={a['excluded']:4d} t={a['wall_s']:.0f}s fails={sorted(a['failures'])}")
    if violations:
        return 1
    if harness_errors:
        for h in harness_errors:
            print("HARNESS-ERROR:", h[-3000:], file=sys.stderr)
        return 2
    return 0


def validate_evidence(ev):
    try:
        import jsonschema
    except Exception:
        jsonschema = None
    schema_path = "/root/.vp/EVIDENCE.schema.json"
    if jsonschema is not None and os.path.exists(schema_path):
        with open(schema_path) as f:
            jsonschema.validate(ev, json.load(f))
    else:
        cov = ev["coverage"]
        assert isinstance(cov["evaluations"], int) and isinstance(cov["samples"], list)


def replay(path):
    with open(path) as f:
        r = json.load(f)
    res = run_single_case(r["property"], r["subcheck"], r["case"], r.get("x64", True))
    print(json.dumps(res, indent=1)[:6000])
    if "harness_error" in res:
        return 2
    if not res["ok"]:
        print(f"VIOLATION property={r['property']} replay={path}")
        return 1
    return 0
