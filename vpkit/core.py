"""Case protocol: a sub-check is (generator of plain-JSON cases, run_case) -> Verdict."""
from __future__ import annotations

import dataclasses
import hashlib
import json
import os
import traceback
from typing import Any, Callable, Iterable, Optional


class HarnessError(BaseException):
    """Raised for problems of the harness itself (never reported as a violation).

    Derives from BaseException so that Hypothesis aborts at once instead of shrinking it."""


@dataclasses.dataclass
class Verdict:
    ok: bool
    nontrivial: bool = True
    labels: tuple = ()
    detail: Any = None
    bucket: str = ""
    count: int = 1  # number of elementary evaluations this case stands for (blocks of an enumeration)

    def to_json(self):
        return {
            "ok": self.ok,
            "nontrivial": self.nontrivial,
            "labels": list(self.labels),
            "detail": self.detail,
            "bucket": self.bucket,
        }


def ok(nontrivial=True, labels=(), detail=None, count=1):
    return Verdict(True, bool(nontrivial), tuple(labels), detail, "", int(count))


def fail(bucket, detail=None, nontrivial=True, labels=()):
    return Verdict(False, bool(nontrivial), tuple(labels), detail, str(bucket))


@dataclasses.dataclass
class SubCheck:
    """One executable sub-check of a property.

    mode == "given":   `strategy()` returns a Hypothesis strategy of JSON dicts.
    mode == "enum":    `enumerate(tier)` returns an iterable of JSON dicts (finite
                       space, enumerated completely; sharded by index).
    mode == "machine": `machine(record)` returns a RuleBasedStateMachine class whose
                       rules append to a plain-JSON op list; at teardown the machine
                       calls `record(case)` where case = {"ops": [...], ...}; the same
                       case is replayable through run_case.
    """

    name: str
    run_case: Callable[[dict], Verdict]
    mode: str = "given"
    strategy: Optional[Callable[[], Any]] = None
    enumerate: Optional[Callable[[str], Iterable[dict]]] = None
    machine: Optional[Callable[[Callable], Any]] = None
    counts: dict = dataclasses.field(default_factory=lambda: {"quick": 100, "thorough": 2000})
    shards: dict = dataclasses.field(default_factory=lambda: {"quick": 1, "thorough": 16})
    x64: bool = True
    min_nontrivial_frac: float = 0.3
    steps: dict = dataclasses.field(default_factory=lambda: {"quick": 30, "thorough": 50})
    clear_every: int = 200
    doc: str = ""
    # optional: cases that must always be executed first (hand-written corner cases)
    explicit: Optional[Callable[[], Iterable[dict]]] = None
    # enum mode: is the enumerated list the COMPLETE finite space described in `doc` for that tier?
    exhaustive: dict = dataclasses.field(default_factory=lambda: {"quick": True, "thorough": True})


def canonical(case) -> str:
    return json.dumps(case, sort_keys=True, separators=(",", ":"), default=_default)


def _default(o):
    try:
        import numpy as np

        if isinstance(o, (np.integer,)):
            return int(o)
        if isinstance(o, (np.floating,)):
            return float(o)
        if isinstance(o, np.ndarray):
            return o.tolist()
    except Exception:  # pragma: no cover
        pass
    return repr(o)


def case_hash(case) -> str:
    return hashlib.sha1(canonical(case).encode()).hexdigest()[:16]


def jsonable(x):
    return json.loads(json.dumps(x, default=_default))


def exception_bucket(exc: BaseException, src_root: str):
    """(bucket, in_jinns) for an exception raised while running a case.

    The bucket is (exception type, innermost frame that lies inside the library under
    test).  `in_jinns` is False when no frame of the traceback is inside the library:
    that is a harness error, not a property violation.
    """
    tb = traceback.extract_tb(exc.__traceback__)
    inner = None
    for fr in tb:
        fn = os.path.abspath(fr.filename)
        if fn.startswith(os.path.abspath(src_root) + os.sep) and "/jinns/" in fn:
            inner = fr
    if inner is None:
        return f"exc:{type(exc).__name__}@harness", False
    rel = inner.filename.split("/jinns/")[-1]
    return f"exc:{type(exc).__name__}@{rel}:{inner.name}", True
