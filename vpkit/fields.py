"""Analytic field families with closed-form derivatives (numpy float64), independent of JAX.

A field spec is a plain JSON dict:
  {"din": d, "m": m,
   "sin":  [[ [a, b, [w_1..w_d]], ... ] per output],      a*sin(w.z + b)
   "quad": [Q (d x d) per output] or None,                 z^T Q z
   "gauss":[[c, s, [mu_1..mu_d]] per output] or None,      c*exp(-|z-mu|^2/s)
   "mono": [[ [coef, [alpha_1..alpha_d]], ... ] per output] or None,   coef * z^alpha
   "lin":  [[c0, [c_1..c_d]] per output] or None,          c0 + c.z
   "post": "id" | "exp" | "shift"  }   # positive variants: exp(f) ; 1.5+... not used
`value(z)`, `grad(z)`, `hess(z)` return arrays (m,), (m,d), (m,d,d).
"""
from __future__ import annotations

import functools
import math

import numpy as np


class Field:
    def __init__(self, spec):
        self.spec = spec
        self.din = int(spec["din"])
        self.m = int(spec["m"])
        self.post = spec.get("post", "id")

    # ---- raw (before post) ------------------------------------------------------
    def _raw(self, z, order=2):
        d, m = self.din, self.m
        z = np.asarray(z, dtype=np.float64).reshape(d)
        val = np.zeros(m)
        gr = np.zeros((m, d))
        he = np.zeros((m, d, d))
        sp = self.spec
        for k in range(m):
            for term in (sp.get("sin") or [[]] * m)[k]:
                a, b, w = term
                w = np.asarray(w, dtype=np.float64)
                ph = float(w @ z) + b
                val[k] += a * math.sin(ph)
                gr[k] += a * math.cos(ph) * w
                he[k] += -a * math.sin(ph) * np.outer(w, w)
            if sp.get("quad"):
                Q = np.asarray(sp["quad"][k], dtype=np.float64)
                val[k] += z @ Q @ z
                gr[k] += (Q + Q.T) @ z
                he[k] += Q + Q.T
            if sp.get("gauss"):
                c, s, mu = sp["gauss"][k]
                mu = np.asarray(mu, dtype=np.float64)
                dz = z - mu
                g = c * math.exp(-(dz @ dz) / s)
                val[k] += g
                gr[k] += g * (-2.0 * dz / s)
                he[k] += g * (4.0 * np.outer(dz, dz) / s**2 - 2.0 * np.eye(d) / s)
            if sp.get("mono"):
                for coef, alpha in sp["mono"][k]:
                    v, g_, h_ = _mono(z, alpha)
                    val[k] += coef * v
                    gr[k] += coef * g_
                    he[k] += coef * h_
            if sp.get("lin"):
                c0, c = sp["lin"][k]
                c = np.asarray(c, dtype=np.float64)
                val[k] += c0 + c @ z
                gr[k] += c
        return val, gr, he

    def all(self, z):
        v, g, h = self._raw(z)
        if self.post == "id":
            return v, g, h
        if self.post == "exp":
            e = np.exp(v)
            g2 = e[:, None] * g
            h2 = e[:, None, None] * (h + g[:, :, None] * g[:, None, :])
            return e, g2, h2
        raise ValueError(self.post)

    def value(self, z):
        return self.all(z)[0]

    def grad(self, z):
        return self.all(z)[1]

    def hess(self, z):
        return self.all(z)[2]


def _mono(z, alpha):
    d = len(alpha)
    v = 1.0
    for i in range(d):
        v *= z[i] ** alpha[i]
    g = np.zeros(d)
    h = np.zeros((d, d))
    for i in range(d):
        if alpha[i] >= 1:
            t = alpha[i] * z[i] ** (alpha[i] - 1)
            for j in range(d):
                if j != i:
                    t *= z[j] ** alpha[j]
            g[i] = t
    for i in range(d):
        for j in range(d):
            if i == j:
                if alpha[i] >= 2:
                    t = alpha[i] * (alpha[i] - 1) * z[i] ** (alpha[i] - 2)
                    for k in range(d):
                        if k != i:
                            t *= z[k] ** alpha[k]
                    h[i, i] = t
            else:
                if alpha[i] >= 1 and alpha[j] >= 1:
                    t = alpha[i] * z[i] ** (alpha[i] - 1) * alpha[j] * z[j] ** (alpha[j] - 1)
                    for k in range(d):
                        if k not in (i, j):
                            t *= z[k] ** alpha[k]
                    h[i, j] = t
    return v, g, h


# ------------------------------------------------------------------ JAX side (the "network")

@functools.lru_cache(maxsize=None)
def _field_cls():
    import equinox as eqx
    import jax.numpy as jnp

    class FieldNet(eqx.Module):
        a: jnp.ndarray
        b: jnp.ndarray
        w: jnp.ndarray
        Q: jnp.ndarray
        gc: jnp.ndarray
        gs: jnp.ndarray
        gmu: jnp.ndarray
        mc: jnp.ndarray
        l0: jnp.ndarray
        l1: jnp.ndarray
        mal: tuple = eqx.field(static=True)
        post: str = eqx.field(static=True)

        def __call__(self, z):
            m, d = self.l1.shape
            K = self.mc.shape[1]
            z = z.reshape((d,))
            ph = jnp.einsum("kjd,d->kj", self.w, z) + self.b
            out = jnp.sum(self.a * jnp.sin(ph), axis=1)
            out = out + jnp.einsum("i,kij,j->k", z, self.Q, z)
            dz = z[None, :] - self.gmu
            out = out + self.gc * jnp.exp(-jnp.sum(dz * dz, axis=1) / self.gs)
            if K > 0:
                # integer powers through python ints keep derivatives exact at 0
                terms = []
                for k in range(m):
                    tk = jnp.zeros((), dtype=out.dtype)
                    for j in range(K):
                        p = jnp.ones((), dtype=out.dtype)
                        for i in range(d):
                            e = int(self.mal[k][j][i])
                            if e:
                                p = p * z[i] ** e
                        tk = tk + self.mc[k, j] * p
                    terms.append(tk)
                out = out + jnp.stack(terms)
            out = out + self.l0 + self.l1 @ z
            if self.post == "exp":
                out = jnp.exp(out)
            return out

    return FieldNet

def make_field_module(spec):
    """eqx.Module computing the same field with jax.numpy; coefficients are array leaves."""
    import jax.numpy as jnp

    d, m = int(spec["din"]), int(spec["m"])
    sins = spec.get("sin") or [[] for _ in range(m)]
    J = max([len(s) for s in sins] + [0])
    a = np.zeros((m, J))
    b = np.zeros((m, J))
    w = np.zeros((m, J, d))
    for k in range(m):
        for j, (aa, bb, ww) in enumerate(sins[k]):
            a[k, j], b[k, j], w[k, j] = aa, bb, ww
    Q = np.asarray(spec["quad"], dtype=np.float64) if spec.get("quad") else np.zeros((m, d, d))
    if spec.get("gauss"):
        gc = np.array([g[0] for g in spec["gauss"]], dtype=np.float64)
        gs = np.array([g[1] for g in spec["gauss"]], dtype=np.float64)
        gmu = np.array([g[2] for g in spec["gauss"]], dtype=np.float64)
    else:
        gc, gs, gmu = np.zeros(m), np.ones(m), np.zeros((m, d))
    monos = spec.get("mono") or [[] for _ in range(m)]
    K = max([len(s) for s in monos] + [0])
    mc = np.zeros((m, K))
    mal = np.zeros((m, K, d), dtype=np.int64)
    for k in range(m):
        for j, (cc, al) in enumerate(monos[k]):
            mc[k, j] = cc
            mal[k, j] = al
    if spec.get("lin"):
        l0 = np.array([l[0] for l in spec["lin"]], dtype=np.float64)
        l1 = np.array([l[1] for l in spec["lin"]], dtype=np.float64)
    else:
        l0, l1 = np.zeros(m), np.zeros((m, d))
    post = spec.get("post", "id")

    mal_t = tuple(tuple(tuple(int(x) for x in mal[k, j]) for j in range(K)) for k in range(m))
    f = jnp.asarray
    return _field_cls()(f(a), f(b), f(w), f(Q), f(gc), f(gs), f(gmu), f(mc), f(l0), f(l1), mal_t, post)


_IDENT_IN = None
_IDENT_OUT = None


def _ident_in(i, p):
    return i


def _ident_out(i, o, p):
    return o


def field_pinn(spec, eq_type, slice_solution=None):
    """A genuine jinns PINN instance around the analytic field (reverse-mode dispatch)."""
    import jax.numpy as jnp
    import jinns

    mod = make_field_module(spec)
    m = int(spec["m"])
    if slice_solution is None:
        slice_solution = jnp.s_[0:m]
    u = jinns.utils.PINN(mlp=mod, slice_solution=slice_solution, eq_type=eq_type,
                         input_transform=_ident_in, output_transform=_ident_out)
    return u, u.init_params()


# ------------------------------------------------------------------ Hypothesis strategies
def q16(lo=-2.0, hi=2.0, nonzero=False):
    """Dyadic rationals k/16 in [lo, hi] (exact in binary, shrink towards 0)."""
    from hypothesis import strategies as st

    s = st.integers(int(math.ceil(lo * 16)), int(math.floor(hi * 16)))
    if nonzero:
        s = s.filter(lambda k: k != 0)
    return s.map(lambda k: k / 16.0)


def field_specs(din, m, post="id", nsin=(1, 2), gauss=True, quad=True, lin=False):
    from hypothesis import strategies as st

    @st.composite
    def s(draw):
        sp = {"din": din, "m": m, "post": post}
        sp["sin"] = [
            [[draw(q16(-2, 2, nonzero=True)), draw(q16(-3, 3)), [draw(q16(-2, 2)) for _ in range(din)]]
             for _ in range(draw(st.integers(*nsin)))]
            for _ in range(m)]
        sp["quad"] = ([[[draw(q16(-1, 1)) for _ in range(din)] for _ in range(din)] for _ in range(m)]
                      if quad else None)
        sp["gauss"] = ([[draw(q16(-2, 2)), draw(q16(0.5, 3)), [draw(q16(-1, 1)) for _ in range(din)]]
                        for _ in range(m)] if gauss else None)
        sp["lin"] = ([[draw(q16(-1, 1)), [draw(q16(-1, 1)) for _ in range(din)]] for _ in range(m)]
                     if lin else None)
        sp["mono"] = None
        return sp

    return s()


def monomials(d, maxdeg):
    """All exponent vectors alpha in N^d with |alpha| <= maxdeg."""
    out = []

    def rec(prefix, left, k):
        if k == d:
            out.append(list(prefix))
            return
        for e in range(left + 1):
            rec(prefix + [e], left - e, k + 1)

    rec([], maxdeg, 0)
    return out
