"""Shared kit for the jinns property checks (see /verif/DESIGN.md section 2)."""
from .core import SubCheck, Verdict, ok, fail, HarnessError  # noqa: F401
