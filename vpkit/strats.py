"""Hypothesis strategies producing the plain-JSON loss specs of vpkit.problems."""
from __future__ import annotations

from hypothesis import strategies as st

from .fields import field_specs, q16
from .problems import NFEAT


def pos16(lo=0.25, hi=3.0):
    return st.integers(int(lo * 16), int(hi * 16)).map(lambda k: k / 16.0)


@st.composite
def points(draw, n, d, lo=-2.0, hi=2.0):
    """n distinct points in [lo,hi]^d (distinct first coordinate)."""
    firsts = draw(st.lists(q16(lo, hi), min_size=n, max_size=n, unique=True))
    return [[firsts[i]] + [draw(q16(lo, hi)) for _ in range(d - 1)] for i in range(n)]


BIG_SIZES = (33, 65, 127, 129, 150, 257, 513, 1025, 1324, 2050)
_P = 4096


def lattice(n, d, a, s, lo=-2.0, hi=2.0):
    """n <= 4096 distinct dyadic points of [lo,hi)^d (distinct first coordinate), a pure function of (n, d, a, s): the
    large-batch size classes cannot afford one Hypothesis draw per coordinate."""
    A = 2 * a + 1
    return [[lo + (((i * A * (2 * j + 1) + s * (j + 1) + (i * i * j * 7)) % _P) / _P) * (hi - lo) for j in range(d)] for i in range(n)]


def lat1(n, a, s, lo, hi):
    return [r[0] for r in lattice(n, 1, a, s, lo, hi)]


@st.composite
def weight(draw, ncomp, allow_vec=True):
    if allow_vec and ncomp > 1 and draw(st.booleans()):
        return [draw(pos16(0.25, 3)) for _ in range(ncomp)]
    return draw(pos16(0.25, 3))


@st.composite
def eq_params_strat(draw, transform, extra=(0, 2)):
    eqp = {"theta": draw(st.one_of(pos16(0.5, 2), pos16(0.5, 2).map(lambda v: [v])))}
    if transform == "affine":
        eqp["phi"] = draw(q16(-1, 1))
    for i in range(draw(st.integers(*extra))):
        name = ["alpha", "beta", "gamma"][i]
        shape = draw(st.sampled_from(["s", "1", "2"]))
        if shape == "s":
            eqp[name] = draw(q16(-2, 2))
        elif shape == "1":
            eqp[name] = [draw(q16(-2, 2))]
        else:
            eqp[name] = [draw(q16(-2, 2)), draw(q16(-2, 2))]
    return eqp


@st.composite
def box_strat(draw, d):
    mn = [draw(q16(-2, 1)) for _ in range(d)]
    mx = [mn[i] + draw(pos16(0.5, 3)) for i in range(d)]
    return {"min": mn, "max": mx}


@st.composite
def bfun_strat(draw, ncomp, ret=None):
    if ret is None:
        ret = draw(st.sampled_from(["scalar", "one"])) if ncomp == 1 else "vec"
    return {"a": [draw(q16(-2, 2, nonzero=True)) for _ in range(ncomp)], "b": draw(q16(-2, 2, nonzero=True)),
            "c": draw(q16(-2, 2)), "e": draw(q16(-2, 2, nonzero=True)), "ret": ret}


@st.composite
def single_spec(draw, kinds=("ode", "statio", "nonstatio"), want=("eq",), maybe=("ic", "boundary", "norm", "obs"),
                param_batch="no", hetero=False, dims=(1, 2), max_m=3, transform=None, nmax=5, obs_params=False, extra=(0, 2), nmin=1, slice_solution=False, big="no"):
    """big = "always" / "maybe": large-batch size classes (BIG_SIZES rows, around and beyond the usual block sizes 128 / 1024
    of chunked evaluation); the coordinates then come from `lattice` (seeded by two drawn integers) instead of one draw each."""
    kind = draw(st.sampled_from(list(kinds)))
    bigm = big == "always" or (big == "maybe" and draw(st.integers(0, 7)) == 0)
    la, ls = (draw(st.integers(0, 500)), draw(st.integers(0, _P - 1))) if bigm else (0, 0)
    d = 0 if kind == "ode" else draw(st.sampled_from(list(dims)))
    time = kind != "statio"
    din = d + (1 if time else 0)
    m = 1 if "norm" in want and kind != "ode" else draw(st.integers(1, max_m))
    tr = transform or draw(st.sampled_from(["none", "scale", "affine"]))
    spec = {"kind": kind, "dim": d,
            "net": {"field": draw(field_specs(din, m, nsin=(1, 2), gauss=draw(st.booleans()))), "transform": tr}}
    if draw(st.integers(0, 3)) == 0:
        # a real (randomly initialised) one-hidden-layer MLP from create_PINN instead of the analytic field
        spec["net"]["mlp"] = {"key": draw(st.integers(0, 10**6)), "width": draw(st.integers(1, 5)),
                              "act": draw(st.sampled_from(["tanh", "sin"]))}
    spec["eq_params"] = draw(eq_params_strat(tr, extra=extra))
    pn = sorted(spec["eq_params"])
    spec["box"] = draw(box_strat(max(d, 1)))
    mn, mx = spec["box"]["min"], spec["box"]["max"]
    on = set(want) | {t for t in maybe if draw(st.booleans())}
    if kind == "ode":
        on -= {"boundary", "norm"}
    if kind == "statio":
        on -= {"ic"}
    pb_on = param_batch == "yes" or (param_batch == "maybe" and draw(st.booleans()))
    if pb_on:
        on -= {"norm"}  # outside the domain (see DESIGN 2.5)
    if "norm" in on and m != 1:
        on -= {"norm"}  # normalisation is defined for a scalar density
    # ---- batch
    w = {}
    batch = {}
    if kind == "ode":
        n = draw(st.sampled_from(BIG_SIZES)) if bigm else draw(st.integers(nmin, nmax))
        batch["t"] = lat1(n, la, ls, 0.0, 2.0) if bigm else draw(st.lists(q16(0, 2), min_size=n, max_size=n, unique=True))
        N = n
    elif kind == "statio":
        n = draw(st.sampled_from(BIG_SIZES)) if bigm else draw(st.integers(nmin, nmax))
        batch["x"] = lattice(n, d, la, ls) if bigm else draw(points(n, d))
        N = n
    else:
        cart = draw(st.booleans())
        if bigm:
            total = draw(st.sampled_from(BIG_SIZES))
            nt = draw(st.integers(1, min(total, 40))) if cart else total
            nx = -(-total // nt) if cart else nt
            batch["t"] = lat1(nt, la, ls, 0.0, 1.0)
            batch["x"] = lattice(nx, d, la + 1, ls)
        else:
            nt = draw(st.integers(min(nmin, 3), 3))
            nx = draw(st.integers(1, 3)) if cart else nt
            batch["t"] = draw(st.lists(q16(0, 1), min_size=nt, max_size=nt, unique=True))
            batch["x"] = draw(points(nx, d))
        batch["cartesian"] = cart
        N = nt * nx if cart else nt
    if "boundary" in on and d == 2:
        if pb_on:
            nb = N if kind == "statio" else (N // len(batch["t"]) if batch.get("cartesian", True) else N)
        else:
            nb = ((draw(st.sampled_from([5, 33, 130])) if bigm else draw(st.integers(1, 4)))
                  if (kind == "statio" or batch.get("cartesian", True)) else len(batch["t"]))
        if bigm or nb > 8:
            batch["border"] = [[mn[1 - f // 2] + u * (mx[1 - f // 2] - mn[1 - f // 2]) for u in lat1(nb, la + f, ls, 0.0, 1.0)]
                               for f in range(4)]
        else:
            batch["border"] = [[mn[1 - f // 2] + draw(st.integers(0, 16)) / 16.0 * (mx[1 - f // 2] - mn[1 - f // 2])
                                for _ in range(nb)] for f in range(4)]
    if "boundary" in on and pb_on and d == 1 and kind == "statio" and N != 1:
        on -= {"boundary"}  # the 1-D border batch has one row; a parameter batch needs as many rows
    if "boundary" in on and pb_on and d == 1 and kind == "nonstatio" and N != len(batch["t"]):
        on -= {"boundary"}
    spec["batch"] = batch
    # ---- dynamic term
    if "eq" in on:
        c = draw(st.integers(1, 3))
        spec["eq"] = {"coef": [[draw(q16(-2, 2)) for _ in range(NFEAT + len(pn))] for _ in range(c)]}
        w["dyn_loss"] = draw(weight(c))
    else:
        spec["eq"] = None
    # ---- initial condition
    if "ic" in on:
        if kind == "ode":
            vec = draw(st.booleans()) or m > 1
            spec["ic"] = {"t0": draw(q16(0, 1)), "u0": [draw(q16(-2, 2)) for _ in range(m)] if vec else draw(q16(-2, 2))}
            w["initial_condition"] = draw(pos16())
        else:
            ret = draw(st.sampled_from(["scalar", "one"])) if m == 1 else "vec"
            spec["ic"] = {"a": [draw(q16(-2, 2, nonzero=True)) for _ in range(m)], "b": draw(q16(-2, 2)),
                          "c": [draw(q16(-2, 2)) for _ in range(m)], "ret": ret}
            w["initial_condition"] = draw(weight(m))
    else:
        spec["ic"] = None
    # ---- normalisation
    if "norm" in on:
        J = draw(st.sampled_from([8, 33, 130])) if (bigm and N <= 300) else draw(st.integers(2, 8))
        spec["norm"] = {"samples": lattice(J, d, la + 2, ls) if J > 8 else draw(points(J, d)), "L": draw(pos16(0.5, 4)), "w": None}
        w["norm_loss"] = draw(pos16())
    else:
        spec["norm"] = None
    # ---- boundary
    if "boundary" in on:
        spec["boundary"] = draw(boundary_strat(d, m))
        w["boundary_loss"] = draw(st.one_of(pos16(), pos16().map(lambda v: [v])))
    else:
        spec["boundary"] = None
    # ---- observations
    msol = m
    if slice_solution and m >= 2 and "norm" not in on and draw(st.booleans()):
        # the network also outputs non-solution channels: slice_solution selects the solution components
        slo = draw(st.integers(0, m - 1))
        shi = draw(st.integers(slo + 1, m))
        if (slo, shi) != (0, m):
            spec["net"]["slice_solution"] = [slo, shi]
            msol = shi - slo
    if "obs" in on:
        m_full, m = m, msol
        lo = draw(st.integers(0, m - 1))
        hi = draw(st.integers(lo + 1, m))
        sl = None if (lo, hi) == (0, m) and draw(st.booleans()) else [lo, hi]
        k = (hi - lo) if sl else m
        zin = lattice(N, din, la + 3, ls) if bigm else draw(points(N, din))
        spec["obs"] = {"pinn_in": zin, "val": lattice(N, k, la + 4, ls) if bigm else [[draw(q16(-2, 2)) for _ in range(k)] for _ in range(N)],
                       "obs_slice": sl, "eq_params": {}}
        if obs_params:
            cand = [kk for kk, v in spec["eq_params"].items() if not (isinstance(v, list) and len(v) == 2)]
            okeys = draw(st.lists(st.sampled_from(cand), min_size=0, max_size=min(2, len(cand)), unique=True))
            if bigm:
                spec["obs"]["eq_params"] = {kk: lat1(N, la + 5 + j, ls, 0.5 if kk == "theta" else -2.0, 2.5 if kk == "theta" else 2.0)
                                            for j, kk in enumerate(sorted(okeys))}
            else:
                spec["obs"]["eq_params"] = {kk: draw(st.lists(q16(0.5, 2.5) if kk == "theta" else q16(-2, 2), min_size=N,
                                                             max_size=N, unique=True)) for kk in sorted(okeys)}
        w["observations"] = draw(weight(k))
        m = m_full
    else:
        spec["obs"] = None
    spec["w"] = w
    # ---- parameter batch
    spec["param_batch"] = None
    if pb_on:
        cand = [k for k, v in spec["eq_params"].items() if not (isinstance(v, list) and len(v) == 2)]
        keys = draw(st.lists(st.sampled_from(cand), min_size=1, max_size=max(1, len(spec["eq_params"]) - 1), unique=True))
        if bigm:
            spec["param_batch"] = {k: lat1(N, la + 9 + j, ls, 0.5 if k == "theta" else -2.0, 2.5 if k == "theta" else 2.0)
                                   for j, k in enumerate(sorted(keys))}
        else:
            spec["param_batch"] = {k: draw(st.lists(q16(0.5, 2.5) if k == "theta" else q16(-2, 2), min_size=N, max_size=N,
                                                    unique=True)) for k in sorted(keys)}
    spec["hetero"] = None
    if hetero and spec["eq"] is not None and (hetero == "always" or draw(st.booleans())):
        keys = draw(st.lists(st.sampled_from(pn), min_size=1, max_size=len(pn), unique=True))
        het = {}
        for k in pn:
            if k in keys:
                het[k] = [draw(q16(-2, 2, nonzero=True)), draw(q16(-2, 2, nonzero=True))]
                others = [o for o in keys if o != k]
                if others and draw(st.booleans()):
                    # GLM-style: the function also reads the base value of another heterogeneous parameter
                    het[k] += [draw(st.sampled_from(sorted(others))), draw(q16(-2, 2, nonzero=True))]
            elif draw(st.booleans()):
                het[k] = None
        spec["hetero"] = het
    return spec


@st.composite
def boundary_strat(draw, d, m):
    """global or per-facet boundary specification."""
    def one(cond):
        if cond == "dirichlet":
            lo = draw(st.integers(0, m - 1))
            hi = draw(st.integers(lo + 1, m))
            mode = draw(st.sampled_from(["none", "slice", "int"])) if hi - lo == 1 else draw(st.sampled_from(["none", "slice"]))
            if mode == "none":
                dim, k = None, m
            elif mode == "int":
                dim, k = lo, 1
            else:
                dim, k = [lo, hi], hi - lo
            return dim, draw(bfun_strat(k))
        comp = draw(st.integers(0, m - 1))
        dim = comp if draw(st.booleans()) else [comp, comp + 1]
        if m == 1 and draw(st.booleans()):
            dim = None
        return dim, draw(bfun_strat(1))

    conds = ["dirichlet", "neumann", "von neumann"]
    if draw(st.booleans()):
        cond = draw(st.sampled_from(conds))
        dim, f = one("dirichlet" if cond == "dirichlet" else "neumann")
        return {"cond": cond, "f": f, "dim": dim}
    names = ["xmin", "xmax", "ymin", "ymax"][: 2 * d]
    cd, fd, dd = {}, {}, {}
    for nme in names:
        c = draw(st.sampled_from(conds + [None]))
        cd[nme] = c
        if c is None:
            fd[nme], dd[nme] = None, None
        else:
            dd[nme], fd[nme] = one("dirichlet" if c == "dirichlet" else "neumann")
    if all(v is None for v in cd.values()):
        cd[names[0]] = "dirichlet"
        dd[names[0]], fd[names[0]] = one("dirichlet")
    return {"cond": cd, "f": fd, "dim": dd}
