"""System losses (SystemLossODE / SystemLossPDE) from plain-JSON specs + numpy reference.

sys spec = {
  "kind", "dim", "box", "batch", "param_batch" (as in problems),
  "unknowns": {uname: netspec},            # insertion order = u_dict order
  "eq_params": flat dict shared by all networks and equations,
  "equations": {ename: {"coef": c x K}},   # K = U + 5 + P features (see _sys_features)
  "w": {"dyn_loss": scalar | {ename: w}, <term>: scalar | {uname: w} | None},
  "ic": {uname: ic|None} | None, "boundary": {...}|None, "norm": {...}|None, "obs": {uname: obs|None}|None,
}
"""
from __future__ import annotations

import functools

import numpy as np

from . import problems as P

TERMS_ODE = ["initial_condition", "observations"]
TERMS_PDE = ["norm_loss", "boundary_loss", "observations", "initial_condition"]
SHORT = {"initial_condition": "ic", "observations": "obs", "norm_loss": "norm", "boundary_loss": "boundary"}


def nfeat(U, Pn):
    return U + 5 + Pn


def _sys_features_jax(kind, unames, pnames, z, u_dict, params_dict):
    import jax
    import jax.numpy as jnp

    def call(name, zz):
        p = params_dict.extract_params(name)
        if kind == "nonstatio":
            return u_dict[name](zz[0:1], zz[1:], p)
        return u_dict[name](zz, p)

    feats = [call(n, z)[0] for n in unames]
    J0 = jax.jacfwd(lambda zz: call(unames[0], zz))(z)
    JL = jax.jacfwd(lambda zz: call(unames[-1], zz))(z)
    feats += [J0[0, -1], JL[0, 0], z[0], z[-1], jnp.ones(())]
    feats += [jnp.sum(params_dict.eq_params[k]) for k in pnames]
    return jnp.stack([jnp.asarray(f) for f in feats])


def sys_features_ref(spec, z, eqp):
    unames = list(spec["unknowns"])
    pnames = sorted(spec["eq_params"])
    vals = {n: P.net_all(spec["unknowns"][n], z, eqp) for n in unames}
    feats = [vals[n][0][0] for n in unames]
    feats += [vals[unames[0]][1][0, -1], vals[unames[-1]][1][0, 0], z[0], z[-1], 1.0]
    feats += [float(np.sum(eqp[k])) for k in pnames]
    return np.array(feats)


@functools.lru_cache(maxsize=None)
def sys_eq_classes():
    import equinox as eqx
    import jax.numpy as jnp
    from jinns.loss import ODE, PDENonStatio, PDEStatio

    class SysODE(ODE):
        coef: jnp.ndarray
        unames: tuple = eqx.field(static=True)
        pnames: tuple = eqx.field(static=True)

        def equation(self, t, u_dict, params_dict):
            return self.coef @ _sys_features_jax("ode", self.unames, self.pnames, jnp.reshape(t, (1,)), u_dict, params_dict)

    class SysStatio(PDEStatio):
        coef: jnp.ndarray
        unames: tuple = eqx.field(static=True)
        pnames: tuple = eqx.field(static=True)

        def equation(self, x, u_dict, params_dict):
            return self.coef @ _sys_features_jax("statio", self.unames, self.pnames, x, u_dict, params_dict)

    class SysNonStatio(PDENonStatio):
        coef: jnp.ndarray
        unames: tuple = eqx.field(static=True)
        pnames: tuple = eqx.field(static=True)

        def equation(self, t, x, u_dict, params_dict):
            return self.coef @ _sys_features_jax("nonstatio", self.unames, self.pnames, jnp.concatenate([t, x]), u_dict,
                                                 params_dict)

    return {"ode": SysODE, "statio": SysStatio, "nonstatio": SysNonStatio}


def _wconv(v):
    import jax.numpy as jnp

    if isinstance(v, dict):
        return {k: _wconv(x) for k, x in v.items()}
    if isinstance(v, list):
        return jnp.asarray(v, dtype=float)
    return v


def build_system(spec, derivative_keys_dict=None):
    import warnings

    import jax.numpy as jnp
    import jinns

    kind = spec["kind"]
    unames = list(spec["unknowns"])
    pnames = tuple(sorted(spec["eq_params"]))
    nets = {n: P.make_net(spec["unknowns"][n], P.EQ_TYPES[kind]) for n in unames}
    u_dict = {n: nets[n][0] for n in unames}
    params = jinns.parameters.ParamsDict(nn_params={n: nets[n][1] for n in unames},
                                         eq_params={k: jnp.asarray(v, dtype=float) for k, v in spec["eq_params"].items()})
    cls = sys_eq_classes()[kind]
    dyn = {e: cls(coef=jnp.asarray(v["coef"], dtype=float), unames=tuple(unames), pnames=pnames)
           for e, v in spec["equations"].items()}
    w = {k: _wconv(v) for k, v in (spec.get("w") or {}).items()}
    time = kind == "nonstatio"
    with warnings.catch_warnings():
        warnings.simplefilter("ignore")
        if kind == "ode":
            lw = jinns.loss.LossWeightsODEDict(**w)
            ic = spec.get("ic")
            icd = None if not ic else {n: (None if ic.get(n) is None else (ic[n]["t0"], ic[n]["u0"])) for n in unames}
            loss = jinns.loss.SystemLossODE(u_dict=u_dict, dynamic_loss_dict=dyn, loss_weights=lw,
                                            derivative_keys_dict=derivative_keys_dict, initial_condition_dict=icd,
                                            params_dict=params)
        else:
            lw = jinns.loss.LossWeightsPDEDict(**w)
            kw = {}
            bd = spec.get("boundary")
            if bd:
                fun, cond, dim = {}, {}, {}
                for n in unames:
                    if bd.get(n) is None:
                        fun[n], cond[n], dim[n] = None, None, None
                    else:
                        k = P.boundary_kwargs({"kind": kind, "dim": spec["dim"], "boundary": bd[n]})
                        fun[n], cond[n], dim[n] = k["omega_boundary_fun"], k["omega_boundary_condition"], k["omega_boundary_dim"]
                kw.update(omega_boundary_fun_dict=fun, omega_boundary_condition_dict=cond, omega_boundary_dim_dict=dim)
            nm = spec.get("norm")
            if nm:
                kw.update(norm_samples_dict={n: (None if nm.get(n) is None else jnp.asarray(nm[n]["samples"], dtype=float))
                                             for n in unames},
                          norm_int_length_dict={n: (None if nm.get(n) is None else nm[n]["L"]) for n in unames})
            ic = spec.get("ic")
            if ic and time:
                kw.update(initial_condition_fun_dict={n: (None if ic.get(n) is None else P.make_ic_fun(ic[n])) for n in unames})
            loss = jinns.loss.SystemLossPDE(u_dict=u_dict, dynamic_loss_dict=dyn, loss_weights=lw,
                                            derivative_keys_dict=derivative_keys_dict, params_dict=params, **kw)
    batch = make_sys_batch(spec)
    return loss, params, batch


def make_sys_batch(spec):
    import jax.numpy as jnp

    unames = list(spec["unknowns"])
    sp = dict(spec)
    sp["obs"] = None
    sp["boundary"] = spec.get("boundary") and next((v for v in spec["boundary"].values() if v is not None), None)
    batch = P.make_batch(sp)
    obs = spec.get("obs")
    if obs:
        od = {}
        for n in unames:
            o = obs.get(n)
            od[n] = None if o is None else {
                "pinn_in": jnp.asarray(o["pinn_in"], dtype=float), "val": jnp.asarray(o["val"], dtype=float),
                "eq_params": {k: jnp.asarray(v, dtype=float)[:, None] for k, v in (o.get("eq_params") or {}).items()}}
        import jinns

        batch = jinns.data.append_obs_batch(batch, od)
    return batch


def _weight_of(spec, term, key):
    w = (spec.get("w") or {}).get(term, "default")
    if isinstance(w, str):
        # defaults of the library: ODE dict weights default to None (term not counted), PDE ones to 1.0
        return 0.0 if spec["kind"] == "ode" else 1.0
    if w is None:
        return 0.0
    if isinstance(w, dict):
        return float(np.sum(w[key]))
    return float(np.sum(w))


def ref_system(spec):
    kind = spec["kind"]
    unames = list(spec["unknowns"])
    rows = P.inside_rows(spec)
    out = {}
    # ---- dynamic term: sum_e w_e mean_i sum_c r_e(z_i)^2
    dyn = 0.0
    R = {}
    for e, v in spec["equations"].items():
        coef = np.asarray(v["coef"], dtype=np.float64)
        acc = []
        for i, z in enumerate(rows):
            eqp = P._row_params(spec, i)
            r = coef @ sys_features_ref(spec, np.asarray(z, dtype=np.float64), eqp)
            acc.append(r)
        R[e] = np.array(acc)
        dyn += _weight_of(spec, "dyn_loss", e) * float(np.mean(np.sum(R[e] ** 2, axis=1)))
    out["dyn_loss"] = dyn
    # ---- the other terms: sum_u w_u * single-network term
    terms = TERMS_ODE if kind == "ode" else TERMS_PDE
    for t in terms:
        out[t] = 0.0
    for n in unames:
        single = {"kind": kind, "dim": spec["dim"], "net": spec["unknowns"][n], "eq_params": spec["eq_params"],
                  "eq": None, "hetero": None, "box": spec["box"], "batch": spec["batch"],
                  "param_batch": spec.get("param_batch"), "w": {}}
        for t in terms:
            sh = SHORT[t]
            single[sh] = (spec.get(sh) or {}).get(n)
        if kind == "ode":
            single["boundary"] = single["norm"] = None
        if kind == "statio":
            single["ic"] = None
        want, _ = P.ref_terms(single)
        for t in terms:
            out[t] += _weight_of(spec, t, n) * want[t]
    out["total"] = float(sum(out.values()))
    return out, R
