"""Known findings: genuine defects recorded (not repaired) in /verif/known_findings.json.

Entry format:
  {"id": "...", "property": "C16", "subchecks": ["name", ...],
   "region": "<python expression over the case dict `c`>",   # where the defect lives
   "bucket": "<regex matched against the failure bucket>",   # the symptom
   "what": "one-line description",
   "probe": {"subcheck": "...", "case": {...}}}               # re-checked on every run

A failing case is attributed to a finding only if it lies in the region AND its bucket
matches.  Regions are excluded from the search by construction (counted as `excluded`).
The file is never written at run time.  "fixed" entries are informational and suppress
nothing.
"""
from __future__ import annotations

import json
import os
import re

HERE = os.path.dirname(os.path.dirname(os.path.abspath(__file__)))
PATH = os.path.join(HERE, "known_findings.json")


def load_all():
    if not os.path.exists(PATH):
        return {"findings": [], "fixed": []}
    with open(PATH) as f:
        return json.load(f)


def load_for(prop, sub=None):
    out = []
    for f in load_all().get("findings", []):
        if f.get("property") != prop:
            continue
        if sub is not None and f.get("subchecks") and sub not in f["subchecks"]:
            continue
        out.append(f)
    return out


_SAFE = {"len": len, "any": any, "all": all, "min": min, "max": max, "abs": abs, "set": set,
         "sum": sum, "isinstance": isinstance, "dict": dict, "list": list, "str": str, "int": int}


def in_region(finding, case) -> bool:
    expr = finding.get("region")
    if not expr:
        return False
    try:
        return bool(eval(expr, {"__builtins__": {}}, dict(_SAFE, c=case)))  # noqa: S307
    except Exception:
        return False


def in_any_region(findings, case) -> bool:
    return any(in_region(f, case) for f in findings)


def attribute(findings, case, bucket):
    """Returns the finding a failure belongs to, or None."""
    for f in findings:
        if in_region(f, case) and re.search(f.get("bucket", "$^"), bucket or ""):
            return f
    return None
