"""Sensitivity self-test: apply each /verif/mutants/<ID>-*.patch (and seeded/<id>/patch.diff) to a scratch
copy of /repo/jinns and expect the property's quick check to exit 1.  Development tool (not a registered
check); the scratch copy lives outside /repo and /verif and is removed afterwards."""
from __future__ import annotations

import glob
import json
import os
import shutil
import subprocess
import sys
import tempfile
import time
from concurrent.futures import ThreadPoolExecutor

HERE = os.path.dirname(os.path.dirname(os.path.abspath(__file__)))
_TMP = "/var/tmp" if os.path.isdir("/var/tmp") else None  # scratch space outside /repo and /verif
PY = os.environ.get("VP_PYTHON", "/venv/bin/python")


def mutants(props):
    out = []
    for p in sorted(glob.glob(os.path.join(HERE, "mutants", "*.patch"))):
        pid = os.path.basename(p).split("-")[0].upper()
        if props and pid not in props:
            continue
        out.append((pid, os.path.basename(p)[:-6], p))
    for meta in sorted(glob.glob(os.path.join(HERE, "seeded", "*", "meta.json"))):
        with open(meta) as f:
            m = json.load(f)
        pid = m["property"].upper()
        if props and pid not in props:
            continue
        out.append((pid, "seeded-" + os.path.basename(os.path.dirname(meta)),
                    os.path.join(os.path.dirname(meta), "patch.diff")))
    # negative controls: behaviour-preserving refactors, every listed check must stay quiet (exit 0)
    for meta in sorted(glob.glob(os.path.join(HERE, "refactors", "*", "meta.json"))):
        with open(meta) as f:
            m = json.load(f)
        for pid in m["checks_run_against_it"]:
            if props and pid not in props:
                continue
            out.append((pid, "refactor-" + os.path.basename(os.path.dirname(meta)),
                        os.path.join(os.path.dirname(meta), "patch.diff")))
    return out


def run_one(pid, name, patch):
    td = tempfile.mkdtemp(prefix="vp_mut_", dir=_TMP)
    t0 = time.time()
    try:
        shutil.copytree("/repo/jinns", os.path.join(td, "jinns"))
        r = subprocess.run(["patch", "-p1", "-s", "-i", patch], cwd=td, capture_output=True, text=True)
        if r.returncode != 0:
            return dict(property=pid, mutant=name, status="patch-failed", detail=r.stdout + r.stderr)
        env = dict(os.environ, JINNS_SRC=td, VP_REPLAY_DIR=os.path.join(td, "replays"), VP_SHRINK_BUDGET="5", VP_NO_EVIDENCE="1",
                   VP_JOBS=os.environ.get("VP_MUT_JOBS", "8"))
        subs = os.environ.get("VP_MUT_SUB")
        cmd = [PY, os.path.join(HERE, "vp.py"), "check", pid, "--tier", "quick"]
        if subs:
            cmd += ["--sub", subs]
        r = subprocess.run(cmd, env=env, capture_output=True, text=True, cwd=HERE)
        buckets = [l.strip() for l in r.stdout.splitlines() if l.strip().startswith("subcheck=")]
        if os.environ.get("VP_HARVEST") and "revert" in name:
            # keep (at most 3) shrunk failing cases of reverted fixes as committed regression cases
            got = sorted(glob.glob(os.path.join(td, "replays", pid, "*.json")))[:3]
            os.makedirs(os.path.join(HERE, "regress", pid), exist_ok=True)
            for i, g in enumerate(got):
                with open(g) as f:
                    rj = json.load(f)
                rj["note"] = f"fails when the fix is reverted ({name})"
                with open(os.path.join(HERE, "regress", pid, f"{name}-{i}.json"), "w") as f:
                    json.dump(rj, f, indent=1)
        if name.startswith("refactor-"):
            status = {0: "quiet", 1: "FALSE-ALARM", 2: "harness-error"}.get(r.returncode, str(r.returncode))
        else:
            status = {1: "killed", 0: "SURVIVED", 2: "harness-error"}.get(r.returncode, str(r.returncode))
        return dict(property=pid, mutant=name, status=status,
                    buckets=buckets[:6], wall_s=round(time.time() - t0), stderr=r.stderr[-1500:] if r.returncode == 2 else "")
    finally:
        shutil.rmtree(td, ignore_errors=True)


def main(props, jobs):
    props = [p.upper() for p in props]
    ms = mutants(props)
    if os.environ.get("VP_MATRIX_MISSING_ONLY") == "1":
        # only the entries that the kill matrix does not hold yet (the matrix is merged, never rebuilt)
        mpath = os.path.join(HERE, "selftest", "kill_matrix.json")
        have = set()
        if os.path.exists(mpath):
            with open(mpath) as f:
                have = {(r["property"], r["mutant"]) for r in json.load(f) if r["status"] in ("killed", "quiet")}
        ms = [m for m in ms if (m[0], m[1]) not in have]
    flt = os.environ.get("VP_NAME_FILTER")
    if flt:
        ms = [m for m in ms if flt in m[1]]
    with ThreadPoolExecutor(max_workers=jobs) as ex:
        res = list(ex.map(lambda a: run_one(*a), ms))
    surv = 0
    for r in res:
        print(f"{r['property']} {r['mutant']:45s} {r['status']:14s} {r.get('wall_s', '')}s {r.get('buckets', '')}")
        if r["status"] not in ("killed", "quiet"):
            surv += 1
            if r.get("stderr"):
                print("   ", r["stderr"][-800:])
            if r.get("detail"):
                print("   ", r["detail"][-800:])
    os.makedirs(os.path.join(HERE, "selftest"), exist_ok=True)
    path = os.path.join(HERE, "selftest", "kill_matrix.json")
    old = {}
    if os.path.exists(path):
        with open(path) as f:
            old = {(r["property"], r["mutant"]): r for r in json.load(f)}
    for r in res:
        r.pop("stderr", None)
        old[(r["property"], r["mutant"])] = r
    with open(path, "w") as f:
        json.dump(sorted(old.values(), key=lambda r: (r["property"], r["mutant"])), f, indent=1)
    print(f"{len(res) - surv}/{len(res)} as expected (mutants killed / refactors quiet)")
    return 1 if surv else 0
