"""Builds jinns single losses (ODE / stationary / non-stationary) from plain-JSON specs and evaluates the
same terms with an independent numpy reference written from the property statements (loops over points,
closed-form derivatives of the analytic network).

spec = {
  "kind": "ode"|"statio"|"nonstatio", "dim": d (0 for ode),
  "net": {"field": <fields spec with din = (1 if time) + d>, "transform": "none"|"scale"|"affine"},
  "eq_params": {name: float | [floats]},             # "theta" (and "phi") used by the transforms
  "eq": {"coef": c x (6+P) matrix} | None,  "hetero": {name: [a, b]} | None,
  "w": {"dyn_loss": .., "initial_condition": .., "boundary_loss": .., "norm_loss": .., "observations": ..},
  "ic": ..., "norm": ..., "boundary": ..., "obs": ..., "batch": ..., "param_batch": {name: [N values]} | None,
  "box": {"min": [...], "max": [...]}
}
"""
from __future__ import annotations

import functools
import math

import numpy as np

from .fields import Field, make_field_module

EQ_TYPES = {"ode": "ODE", "statio": "statio_PDE", "nonstatio": "nonstatio_PDE"}
NFEAT = 6


# ------------------------------------------------------------------ static callable menu (created once)
def _s(p):
    import jax.numpy as jnp

    return jnp.sum(p)


def tr_in(i, p):
    return i


def tr_none(i, o, p):
    return o


def tr_scale(i, o, p):
    return o * _s(p.eq_params["theta"])


def tr_affine(i, o, p):
    return o * _s(p.eq_params["theta"]) + _s(p.eq_params["phi"])


TRANSFORMS = {"none": tr_none, "scale": tr_scale, "affine": tr_affine}


_ACT_NP = {"tanh": (np.tanh, lambda h: 1.0 - np.tanh(h) ** 2), "sin": (np.sin, np.cos)}


@functools.lru_cache(maxsize=64)
def _mlp_weights(key, width, act, din, m):
    """Weights of the real one-hidden-layer MLP built by create_PINN for (key, width, act, din, m) - read as data."""
    import equinox as eqx
    import jax
    import jax.numpy as jnp

    from jinns.utils._pinn import _MLP

    a = {"tanh": jax.nn.tanh, "sin": jnp.sin}[act]
    eqx_list = ((eqx.nn.Linear, din, width), (a,), (eqx.nn.Linear, width, m))
    mlp = _MLP(key=jax.random.PRNGKey(key), eqx_list=eqx_list)
    lin = [l for l in mlp.layers if hasattr(l, "weight")]
    return tuple((np.asarray(l.weight, dtype=np.float64), np.asarray(l.bias, dtype=np.float64)) for l in lin), eqx_list


def _mlp_all(netspec, z):
    c = netspec["mlp"]
    din, m = int(netspec["field"]["din"]), int(netspec["field"]["m"])
    (W1, b1), (W2, b2) = _mlp_weights(c["key"], c["width"], c["act"], din, m)[0]
    f, df = _ACT_NP[c["act"]]
    h = W1 @ np.asarray(z, dtype=np.float64) + b1
    V = W2 @ f(h) + b2
    G = W2 @ (df(h)[:, None] * W1)
    return V, G, np.zeros((m, din, din)) * np.nan  # second derivatives are not needed by the references


def make_net(netspec, eq_type, slice_solution=None):
    import jax.numpy as jnp
    import jinns

    m = int(netspec["field"]["m"])
    if netspec.get("mlp") is not None:
        import jax

        c = netspec["mlp"]
        din = int(netspec["field"]["din"])
        _, eqx_list = _mlp_weights(c["key"], c["width"], c["act"], din, m)
        dim_x = din - (0 if eq_type == "statio_PDE" else 1)
        sl = None
        if netspec.get("slice_solution") is not None:
            sl = jnp.s_[netspec["slice_solution"][0]:netspec["slice_solution"][1]]
        u = jinns.utils.create_PINN(jax.random.PRNGKey(c["key"]), eqx_list, eq_type, dim_x if eq_type != "ODE" else 0,
                                    output_transform=TRANSFORMS[netspec.get("transform", "none")], slice_solution=sl)
        return u, u.init_params()
    mod = make_field_module(netspec["field"])
    if slice_solution is None and netspec.get("slice_solution") is not None:
        slice_solution = jnp.s_[netspec["slice_solution"][0]:netspec["slice_solution"][1]]
    if slice_solution is None:
        slice_solution = jnp.s_[0:m]
    u = jinns.utils.PINN(mlp=mod, slice_solution=slice_solution, eq_type=eq_type, input_transform=tr_in,
                         output_transform=TRANSFORMS[netspec.get("transform", "none")])
    return u, u.init_params()


def net_all(netspec, z, eqp):
    """numpy closed form of the wrapped network: value (m,), grad (m,din), hess (m,din,din)."""
    V, G, H = _mlp_all(netspec, z) if netspec.get("mlp") is not None else Field(netspec["field"]).all(z)
    tr = netspec.get("transform", "none")
    if tr == "none":
        return V, G, H
    th = float(np.sum(eqp["theta"]))
    if tr == "scale":
        return th * V, th * G, th * H
    ph = float(np.sum(eqp["phi"]))
    return th * V + ph, th * G, th * H


# ------------------------------------------------------------------ generic user equation
def _gen_residual(coef, pnames, ufun, z, params, extra=None):
    import jax
    import jax.numpy as jnp

    uu = ufun(z)
    J = jax.jacfwd(ufun)(z)
    ps = [_s(params.eq_params[k]) for k in pnames]
    feats = [uu[0], J[0, -1], z[0], uu[0] * ps[0], uu[-1] ** 2, jnp.ones(())] + ps
    return coef @ jnp.stack([jnp.asarray(f, dtype=coef.dtype) for f in feats])


def ref_residual(coef, pnames, netspec, z, eqp_net, eqp_eq):
    """eqp_net: parameters seen by the network ; eqp_eq: parameters seen by the equation (heterogeneity)."""
    V, G, H = net_all(netspec, z, eqp_net)
    ps = [float(np.sum(eqp_eq[k])) for k in pnames]
    feats = np.array([V[0], G[0, -1], z[0], V[0] * ps[0], V[-1] ** 2, 1.0] + ps)
    terms = np.asarray(coef, dtype=np.float64) * feats[None, :]
    return terms.sum(axis=1), terms


@functools.lru_cache(maxsize=None)
def eq_classes():
    import equinox as eqx
    import jax.numpy as jnp
    from jinns.loss import ODE, PDENonStatio, PDEStatio

    class GenODE(ODE):
        coef: jnp.ndarray
        pnames: tuple = eqx.field(static=True)

        def equation(self, t, u, params):
            return _gen_residual(self.coef, self.pnames, lambda z: u(z, params), jnp.reshape(t, (1,)), params)

    class GenStatio(PDEStatio):
        coef: jnp.ndarray
        pnames: tuple = eqx.field(static=True)

        def equation(self, x, u, params):
            return _gen_residual(self.coef, self.pnames, lambda z: u(z, params), x, params)

    class GenNonStatio(PDENonStatio):
        coef: jnp.ndarray
        pnames: tuple = eqx.field(static=True)

        def equation(self, t, x, u, params):
            return _gen_residual(self.coef, self.pnames, lambda z: u(z[0:1], z[1:], params),
                                 jnp.concatenate([t, x]), params)

    return {"ode": GenODE, "statio": GenStatio, "nonstatio": GenNonStatio}


# heterogeneity functions: param -> a*param + b*(first coordinate) ; menu keyed by (kind)
def _het(kind, name, a, b, other=None, c=0.0):
    """param -> a*param + b*(first coordinate) [+ c*sum(base value of another declared key)]"""
    def extra(params):
        return 0.0 if other is None else c * _s(params.eq_params[other])

    if kind == "ode":
        return lambda t, u, params: a * params.eq_params[name] + b * _s(t) + extra(params)
    if kind == "statio":
        return lambda x, u, params: a * params.eq_params[name] + b * x[0] + extra(params)
    return lambda t, x, u, params: a * params.eq_params[name] + b * _s(t) + extra(params)


def make_equation(spec):
    import jax.numpy as jnp

    pnames = tuple(sorted(spec["eq_params"].keys()))
    het = None
    if spec.get("hetero"):
        het = {k: (None if v is None else _het(spec["kind"], k, v[0], v[1], *(v[2:4] if len(v) >= 4 else ())))
               for k, v in spec["hetero"].items()}
    return eq_classes()[spec["kind"]](coef=jnp.asarray(spec["eq"]["coef"], dtype=float), pnames=pnames,
                                      eq_params_heterogeneity=het)


# ------------------------------------------------------------------ user functions (IC / boundary)
def make_ic_fun(ic):
    import jax.numpy as jnp

    a, b, c, ret = ic["a"], ic["b"], ic["c"], ic["ret"]

    def fun(x):
        vals = jnp.stack([a[k] * jnp.sin(b * x[0] + c[k]) + 0.5 for k in range(len(a))])
        if ret == "scalar":
            return vals[0]
        if ret == "one":
            return vals[0:1]
        return vals

    return fun


def ref_ic_fun(ic, x):
    vals = np.array([ic["a"][k] * math.sin(ic["b"] * x[0] + ic["c"][k]) + 0.5 for k in range(len(ic["a"]))])
    return vals[0:1] if ic["ret"] in ("scalar", "one") else vals


def make_bfun(f, time):
    import jax.numpy as jnp

    a, b, c, e, ret = f["a"], f["b"], f["c"], f["e"], f["ret"]

    def val(t, x):
        base = jnp.stack([a[k] * jnp.sin(b * x[-1] + c * t + k) + e for k in range(len(a))])
        if ret == "scalar":
            return base[0]
        if ret == "one":
            return base[0:1]
        return base

    if time:
        return lambda t, x: val(_s(t), x)
    return lambda x: val(0.0, x)


def ref_bfun(f, t, x):
    base = np.array([f["a"][k] * math.sin(f["b"] * x[-1] + f["c"] * t + k) + f["e"] for k in range(len(f["a"]))])
    return base[0:1] if f["ret"] in ("scalar", "one") else base


FACETS = ["xmin", "xmax", "ymin", "ymax"]


def _slice(v):
    import jax.numpy as jnp

    if v is None or isinstance(v, int):
        return v
    return jnp.s_[v[0]:v[1]]


def _full_if_none(v):
    import jax.numpy as jnp

    return jnp.s_[::] if v is None else v


def _pyslice(v, m):
    if v is None:
        return list(range(m))
    if isinstance(v, int):
        return [v]
    return list(range(m))[v[0]:v[1]]


# ------------------------------------------------------------------ batches
def border_array(spec):
    """(nb, d, 2d) array of border points from spec['batch']['border'] = per-facet free coordinates."""
    d = spec["dim"]
    mn, mx = spec["box"]["min"], spec["box"]["max"]
    if spec["batch"].get("border_array") is not None:
        return np.asarray(spec["batch"]["border_array"], dtype=np.float64)
    if d == 1:
        return np.array([mn[0], mx[0]], dtype=np.float64)[None, None, :]  # (1,1,2)
    free = spec["batch"]["border"]  # 4 lists of nb values
    nb = len(free[0])
    out = np.zeros((nb, 2, 4))
    for f in range(4):
        axis = f // 2
        bound = mn[axis] if f % 2 == 0 else mx[axis]
        for i in range(nb):
            p = [0.0, 0.0]
            p[axis] = bound
            p[1 - axis] = free[f][i]
            out[i, :, f] = p
    return out


def make_batch(spec):
    import jax.numpy as jnp
    import jinns

    kind = spec["kind"]
    b = spec["batch"]
    pb = spec.get("param_batch")
    pbd = None if not pb else {k: jnp.asarray(v, dtype=float)[:, None] for k, v in pb.items()}
    obs = spec.get("obs")
    obd = None
    if obs:
        obd = {"pinn_in": jnp.asarray(obs["pinn_in"], dtype=float), "val": jnp.asarray(obs["val"], dtype=float),
               "eq_params": {k: jnp.asarray(v, dtype=float)[:, None] for k, v in (obs.get("eq_params") or {}).items()}}
    if kind == "ode":
        return jinns.data.ODEBatch(temporal_batch=jnp.asarray(b["t"], dtype=float), param_batch_dict=pbd,
                                   obs_batch_dict=obd)
    has_border = spec.get("boundary") is not None or b.get("border") is not None
    if kind == "statio":
        bb = jnp.asarray(border_array(spec)) if has_border else None
        return jinns.data.PDEStatioBatch(inside_batch=jnp.asarray(b["x"], dtype=float), border_batch=bb,
                                         param_batch_dict=pbd, obs_batch_dict=obd)
    tx = np.asarray(inside_rows(spec), dtype=np.float64)
    tb = None
    if has_border:
        tb = jnp.asarray(border_rows(spec))
    return jinns.data.PDENonStatioBatch(times_x_inside_batch=jnp.asarray(tx), times_x_border_batch=tb,
                                        param_batch_dict=pbd, obs_batch_dict=obd)


def inside_rows(spec):
    b = spec["batch"]
    if spec["kind"] == "ode":
        return [[t] for t in b["t"]]
    if spec["kind"] == "statio":
        return [list(x) for x in b["x"]]
    if b.get("cartesian", True):
        return [[t] + list(x) for t in b["t"] for x in b["x"]]
    return [[t] + list(x) for t, x in zip(b["t"], b["x"])]


def border_rows(spec):
    """(Nb, 1+d, F) time-major product of the batch times with the border points."""
    ba = border_array(spec)
    ts = spec["batch"]["t"]
    nb, d, F = ba.shape
    if spec["batch"].get("cartesian", True) or d == 1:
        out = np.zeros((len(ts) * nb, 1 + d, F))
        r = 0
        for t in ts:
            for i in range(nb):
                out[r, 0, :] = t
                out[r, 1:, :] = ba[i]
                r += 1
        return out
    out = np.zeros((nb, 1 + d, F))
    for i in range(nb):
        out[i, 0, :] = ts[i]
        out[i, 1:, :] = ba[i]
    return out


# ------------------------------------------------------------------ building the loss
def make_weights(spec):
    import jax.numpy as jnp
    import jinns

    w = dict(spec.get("w") or {})

    def conv(v):
        if isinstance(v, list):
            return jnp.asarray(v, dtype=float)
        return v

    w = {k: conv(v) for k, v in w.items()}
    kind = spec["kind"]
    if kind == "ode":
        return jinns.loss.LossWeightsODE(**w)
    if kind == "statio":
        return jinns.loss.LossWeightsPDEStatio(**w)
    return jinns.loss.LossWeightsPDENonStatio(**w)


def make_params(spec, nn):
    import jax.numpy as jnp
    import jinns

    return jinns.parameters.Params(nn_params=nn, eq_params={k: jnp.asarray(v, dtype=float)
                                                            for k, v in spec["eq_params"].items()})


def boundary_kwargs(spec):
    bd = spec.get("boundary")
    if not bd:
        return {}
    time = spec["kind"] == "nonstatio"
    if isinstance(bd["cond"], dict):
        names = FACETS[: 2 * spec["dim"]]
        return dict(
            omega_boundary_fun={k: (make_bfun(bd["f"][k], time) if bd["cond"][k] is not None else None) for k in names},
            omega_boundary_condition={k: bd["cond"][k] for k in names},
            omega_boundary_dim={k: _full_if_none(_slice(bd["dim"][k])) for k in names}
            if isinstance(bd.get("dim"), dict) else None,
        )
    return dict(omega_boundary_fun=make_bfun(bd["f"], time), omega_boundary_condition=bd["cond"],
                omega_boundary_dim=_slice(bd.get("dim")))


def build_single(spec, derivative_keys=None, u_and_nn=None):
    import warnings

    import jax.numpy as jnp
    import jinns

    kind = spec["kind"]
    u, nn = u_and_nn if u_and_nn is not None else make_net(spec["net"], EQ_TYPES[kind])
    params = make_params(spec, nn)
    dyn = make_equation(spec) if spec.get("eq") else None
    lw = make_weights(spec)
    obs_slice = None
    if spec.get("obs") and spec["obs"].get("obs_slice") is not None:
        obs_slice = _slice(spec["obs"]["obs_slice"])
    with warnings.catch_warnings():
        warnings.simplefilter("ignore")
        if kind == "ode":
            ic = spec.get("ic")
            init = None if not ic else (ic["t0"], ic["u0"])
            loss = jinns.loss.LossODE(u=u, dynamic_loss=dyn, loss_weights=lw, derivative_keys=derivative_keys,
                                      initial_condition=init, obs_slice=obs_slice, params=params)
        else:
            kw = boundary_kwargs(spec)
            nm = spec.get("norm")
            if nm:
                kw.update(norm_samples=jnp.asarray(nm["samples"], dtype=float), norm_int_length=nm["L"])
            if kind == "statio":
                loss = jinns.loss.LossPDEStatio(u=u, dynamic_loss=dyn, loss_weights=lw, derivative_keys=derivative_keys,
                                                obs_slice=obs_slice, params=params, **kw)
            else:
                ic = spec.get("ic")
                loss = jinns.loss.LossPDENonStatio(u=u, dynamic_loss=dyn, loss_weights=lw,
                                                   derivative_keys=derivative_keys, obs_slice=obs_slice, params=params,
                                                   initial_condition_fun=make_ic_fun(ic) if ic else None, **kw)
    return loss, params, make_batch(spec)


# ------------------------------------------------------------------ reference (numpy, loops)
def _w(spec, name):
    w = (spec.get("w") or {}).get(name, 1.0)
    return np.asarray(w, dtype=np.float64)


def _row_params(spec, i, extra=None):
    """Parameters of sample i: caller's values overridden by row i of each batched key."""
    eqp = {k: np.asarray(v, dtype=np.float64) for k, v in spec["eq_params"].items()}
    for src in (spec.get("param_batch"), extra):
        if src:
            for k, v in src.items():
                eqp[k] = np.asarray([v[i]], dtype=np.float64)
    return eqp


def _hetero(spec, eqp, z):
    het = spec.get("hetero")
    if not het:
        return eqp
    out = dict(eqp)
    for k, v in het.items():
        if v is not None and k in out:
            out[k] = v[0] * eqp[k] + v[1] * z[0]
            if len(v) >= 4:  # reads the BASE (raw) value of another declared key
                out[k] = out[k] + v[3] * float(np.sum(eqp[v[2]]))
    return out


def ref_terms(spec):
    """Returns dict term -> float, plus 'detail' with per-point residual matrix for the dynamic term."""
    kind = spec["kind"]
    d = spec["dim"]
    net = spec["net"]
    m = int(net["field"]["m"])
    pnames = tuple(sorted(spec["eq_params"].keys()))
    out = {}
    detail = {}
    rows = inside_rows(spec)
    N = len(rows)
    # ---- dynamic term
    if spec.get("eq"):
        w = _w(spec, "dyn_loss")
        R = []
        for i, z in enumerate(rows):
            eqp = _row_params(spec, i)
            # heterogeneous parameters replace the raw ones for everything evaluated inside the dynamic term
            # (the equation hands its params on to the network); the other terms keep the raw values
            heqp = _hetero(spec, eqp, z)
            r, _ = ref_residual(spec["eq"]["coef"], pnames, net, np.asarray(z, dtype=np.float64), heqp, heqp)
            R.append(r)
        R = np.array(R)
        detail["residuals"] = R
        out["dyn_loss"] = float(np.mean(np.sum(w * R**2, axis=1)))
    else:
        out["dyn_loss"] = 0.0
    # ---- initial condition
    ic = spec.get("ic")
    if ic:
        w = _w(spec, "initial_condition")
        if kind == "ode":
            u0 = np.atleast_1d(np.asarray(ic["u0"], dtype=np.float64))
            nsamp = N if spec.get("param_batch") else 1
            acc = []
            for i in range(nsamp):
                V, _, _ = net_all(net, np.array([ic["t0"]]), _row_params(spec, i))
                acc.append(float(np.sum(w * (V - u0) ** 2)))
            out["initial_condition"] = float(np.mean(acc))
        else:
            acc = []
            for i, z in enumerate(rows):
                x = z[1:]
                V, _, _ = net_all(net, np.array([0.0] + list(x)), _row_params(spec, i))
                acc.append(float(np.sum(w * (ref_ic_fun(ic, x) - V) ** 2)))
            out["initial_condition"] = float(np.mean(acc))
    else:
        out["initial_condition"] = 0.0
    if kind == "ode":
        pass
    else:
        # ---- normalisation
        nm = spec.get("norm")
        if nm:
            w = float(np.sum(_w(spec, "norm_loss")))
            eqp = _row_params(spec, 0) if not spec.get("param_batch") else None
            if eqp is None:
                raise ValueError("normalisation with a parameter batch is outside the domain")
            S = nm["samples"]
            s0 = (net.get("slice_solution") or [0, m])[0]  # first solution component
            if kind == "statio":
                mean_u = np.mean([net_all(net, np.asarray(s, dtype=np.float64), eqp)[0][s0] for s in S])
                out["norm_loss"] = float(w * (nm["L"] * mean_u - 1.0) ** 2)
            else:
                acc = []
                for t in [r[0] for r in rows]:
                    mean_u = np.mean([net_all(net, np.array([t] + list(s)), eqp)[0][s0] for s in S])
                    acc.append((nm["L"] * mean_u - 1.0) ** 2)
                out["norm_loss"] = float(w * np.mean(acc))
        else:
            out["norm_loss"] = 0.0
        # ---- boundary
        bd = spec.get("boundary")
        if bd:
            out["boundary_loss"], detail["facets"] = ref_boundary(spec)
        else:
            out["boundary_loss"] = 0.0
    # ---- observations
    obs = spec.get("obs")
    if obs:
        w = _w(spec, "observations")
        acc = []
        for i, zin in enumerate(obs["pinn_in"]):
            eqp = _row_params(spec, i, obs.get("eq_params"))
            V, _, _ = net_all(net, np.asarray(zin, dtype=np.float64), eqp)
            sel = V
            if net.get("slice_solution") is not None:  # the solution components of the network output
                sel = V[net["slice_solution"][0]:net["slice_solution"][1]]
            if obs.get("obs_slice") is not None:
                sel = sel[obs["obs_slice"][0]:obs["obs_slice"][1]]
            acc.append(float(np.sum(w * (sel - np.asarray(obs["val"][i], dtype=np.float64)) ** 2)))
        out["observations"] = float(np.mean(acc))
    else:
        out["observations"] = 0.0
    out["total"] = float(sum(v for k, v in out.items()))
    return out, detail


def outward_normal(facet, d):
    n = np.zeros(d)
    n[facet // 2] = -1.0 if facet % 2 == 0 else 1.0
    return n


def ref_boundary(spec):
    """sum over facets of mean over that facet's border points of w * mismatch^2 (outward normal from geometry)."""
    kind, d, net = spec["kind"], spec["dim"], spec["net"]
    m = int(net["field"]["m"])
    bd = spec["boundary"]
    w = float(np.sum(_w(spec, "boundary_loss")))
    time = kind == "nonstatio"
    pts = border_rows(spec) if time else border_array(spec)  # (Nb, (1+)d, F)
    F = pts.shape[-1]
    total = 0.0
    per_facet = []
    mn, mx = spec["box"]["min"], spec["box"]["max"]
    for f in range(F):
        if isinstance(bd["cond"], dict):
            name = FACETS[f]
            cond = bd["cond"][name]
            fs = bd["f"][name]
            dim = bd["dim"][name] if isinstance(bd.get("dim"), dict) else None
        else:
            cond, fs, dim = bd["cond"], bd["f"], bd.get("dim")
        if cond is None:
            per_facet.append(None)
            continue
        comps = _pyslice(dim, m)
        acc = []
        for i in range(pts.shape[0]):
            z = pts[i, :, f]
            x = z[1:] if time else z
            t = z[0] if time else 0.0
            # geometry: the pinned coordinate equals the box bound of this facet
            axis = f // 2
            bound = mn[axis] if f % 2 == 0 else mx[axis]
            assert abs(x[axis] - bound) == 0.0
            V, G, _ = net_all(net, z, _row_params(spec, i))
            fv = ref_bfun(fs, t, x)
            if cond.lower() == "dirichlet":
                mis = V[comps] - fv
            else:
                n = outward_normal(f, d)
                gsp = G[comps[0], (1 if time else 0):]
                mis = np.atleast_1d(float(gsp @ n)) - fv
            acc.append(w * float(np.sum(mis**2)))
        per_facet.append(float(np.mean(acc)))
        total += float(np.mean(acc))
    return total, per_facet
