"""Driver for residual-adaptive refinement (RAR) histories, shared by C16 and C17.

The generator is driven the way jinns.solve drives it: init_rar, then for each iteration get_batch followed by
trigger_rar(i, ...); snapshots are taken around every trigger step.  Candidates / choices of every step come from
the guarded hook (JINNS_VERIF=1) and are NOT trusted: residuals are recomputed from the closed forms.
"""
from __future__ import annotations

import numpy as np

from . import problems as P


def make_loss(cfg):
    if cfg.get("system"):
        from . import systems as S

        sy = cfg["system"]
        spec = {"kind": cfg["kind"], "dim": cfg["dim"], "hetero": None, "param_batch": None,
                "box": {"min": cfg["min"], "max": cfg["max"]}, "unknowns": sy["unknowns"], "eq_params": cfg["eq_params"],
                "equations": sy["equations"], "w": {"dyn_loss": 1.0}, "ic": None, "obs": None, "boundary": None, "norm": None,
                "batch": {"t": [0.5], "x": [[0.0] * max(cfg["dim"], 1)], "cartesian": True}}
        loss, params, _ = S.build_system(spec)
        return loss, params, spec
    spec = {"kind": cfg["kind"], "dim": cfg["dim"], "net": cfg["net"], "eq_params": cfg["eq_params"],
            "eq": {"coef": [cfg["coef"]]}, "w": {}, "ic": None, "norm": None, "boundary": None, "obs": None,
            "hetero": None, "param_batch": None, "box": {"min": cfg["min"], "max": cfg["max"]},
            "batch": {"t": [0.5], "x": [[0.0] * max(cfg["dim"], 1)], "cartesian": True}}
    loss, params, _ = P.build_single(spec)
    return loss, params, spec


def make_generator(cfg):
    import jax
    import jinns

    k = jax.random.PRNGKey(cfg["key"])
    rp = {"start_iter": cfg["start"], "update_every": cfg["every"]}
    kind = cfg["kind"]
    if kind in ("ode", "nonstatio"):
        rp.update(sample_size_times=cfg["cand_t"], selected_sample_size_times=cfg["sel_t"])
    if kind in ("statio", "nonstatio"):
        rp.update(sample_size_omega=cfg["cand_x"], selected_sample_size_omega=cfg["sel_x"])
    if kind == "ode":
        return jinns.data.DataGeneratorODE(k, cfg["nt"], cfg["tmin"], cfg["tmax"], cfg["bt"], method="uniform",
                                           rar_parameters=rp, nt_start=cfg["nt_start"])
    d = cfg["dim"]
    common = dict(key=k, n=cfg["n"], nb=None, omega_batch_size=cfg["bx"], omega_border_batch_size=None, dim=d,
                  min_pts=tuple(cfg["min"]), max_pts=tuple(cfg["max"]), method="uniform", rar_parameters=rp,
                  n_start=cfg["n_start"])
    if kind == "statio":
        return jinns.data.CubicMeshPDEStatio(**common)
    return jinns.data.CubicMeshPDENonStatio(nt=cfg["nt"], temporal_batch_size=cfg["bt"], tmin=cfg["tmin"], tmax=cfg["tmax"],
                                            nt_start=cfg["nt_start"], cartesian_product=True, **common)


class Snap:
    def __init__(self, g, kind):
        self.J = int(g.rar_iter_nb)
        self.times = np.asarray(g.times, dtype=np.float64).copy() if kind in ("ode", "nonstatio") else None
        self.p_times = np.asarray(g.p_times, dtype=np.float64).copy() if kind in ("ode", "nonstatio") else None
        self.omega = np.asarray(g.omega, dtype=np.float64).copy() if kind in ("statio", "nonstatio") else None
        self.p_omega = np.asarray(g.p_omega, dtype=np.float64).copy() if kind in ("statio", "nonstatio") else None

    def axes(self):
        out = {}
        if self.times is not None:
            out["times"] = (self.times.reshape(len(self.times), -1), self.p_times)
        if self.omega is not None:
            out["omega"] = (self.omega, self.p_omega)
        return out


def residual_sq(spec, z):
    if "equations" in spec:  # system loss: sum over the equations of the squared residual norm
        from . import systems as S

        eqp = {k: np.asarray(v, dtype=np.float64) for k, v in spec["eq_params"].items()}
        feats = S.sys_features_ref(spec, np.asarray(z, dtype=np.float64), eqp)
        return float(sum(np.sum((np.asarray(e["coef"], dtype=np.float64) @ feats) ** 2) for e in spec["equations"].values()))
    pn = tuple(sorted(spec["eq_params"]))
    eqp = {k: np.asarray(v, dtype=np.float64) for k, v in spec["eq_params"].items()}
    r, _ = P.ref_residual(spec["eq"]["coef"], pn, spec["net"], np.asarray(z, dtype=np.float64), eqp, eqp)
    return float(np.sum(r**2))


def model_schedule(cfg, iters):
    """Python model of C16: list of booleans (step at iteration i) and counts after each iteration."""
    kind = cfg["kind"]
    J = 0
    out = []
    for i in range(iters):
        due = i >= cfg["start"] and (i - cfg["start"]) % cfg["every"] == 0
        room = True
        if kind in ("ode", "nonstatio"):
            room = room and cfg["nt"] - (cfg["nt_start"] + J * cfg["sel_t"]) >= cfg["sel_t"]
        if kind in ("statio", "nonstatio"):
            room = room and cfg["n"] - (cfg["n_start"] + J * cfg["sel_x"]) >= cfg["sel_x"]
        step = due and room
        if step:
            J += 1
        out.append((step, J))
    return out


def drive(cfg, on_step=None, on_iter=None):
    """Runs the history; callbacks receive snapshots.  Returns (generator, per-iteration records)."""
    from jinns.solver import _rar

    kind = cfg["kind"]
    loss, params, spec = make_loss(cfg)
    g = make_generator(cfg)
    g, f_true, f_false = _rar.init_rar(g)
    records = []
    for i in range(cfg["iters"]):
        before_batch = Snap(g, kind)
        g, batch = g.get_batch()
        pre = Snap(g, kind)
        del _rar._VERIF_SINK[:]
        _, _, g = _rar.trigger_rar(i, loss, params, g, f_true, f_false)
        try:
            import jax

            jax.effects_barrier()
        except Exception:
            pass
        post = Snap(g, kind)
        sink = list(_rar._VERIF_SINK)
        rec = {"i": i, "before_batch": before_batch, "pre": pre, "post": post, "sink": sink, "batch": batch, "spec": spec}
        records.append(rec)
        if on_iter is not None:
            r = on_iter(rec)
            if r is not None:
                return g, records, r
    return g, records, None


def rar_cfg_strategy(kinds=("ode", "statio", "nonstatio")):
    from hypothesis import strategies as st

    from .fields import field_specs, q16
    from .problems import NFEAT
    from .strats import pos16

    @st.composite
    def s(draw):
        kind = draw(st.sampled_from(list(kinds)))
        d = 0 if kind == "ode" else draw(st.sampled_from([1, 2]))
        din = d + (0 if kind == "statio" else 1)
        cfg = {"kind": kind, "dim": d, "key": draw(st.integers(0, 2**31 - 1)),
               "start": draw(st.integers(0, 6)), "every": draw(st.integers(1, 4)),
               "net": {"field": draw(field_specs(din, 1, nsin=(1, 2), gauss=False)), "transform": "none"},
               "eq_params": {"theta": draw(pos16(0.5, 2))}}
        cfg["coef"] = [draw(q16(-2, 2, nonzero=True)), draw(q16(-2, 2)), draw(q16(-2, 2, nonzero=True)), draw(q16(-1, 1)),
                       draw(q16(-1, 1)), draw(q16(-1, 1)), draw(q16(-1, 1))]
        assert len(cfg["coef"]) == NFEAT + 1
        cfg["min"] = [draw(q16(-2, 0)) for _ in range(max(d, 1))]
        cfg["max"] = [cfg["min"][i] + draw(pos16(0.5, 3)) for i in range(max(d, 1))]
        cfg["tmin"] = draw(q16(0, 1))
        cfg["tmax"] = cfg["tmin"] + draw(pos16(0.5, 2))
        if kind in ("ode", "nonstatio"):
            cfg["sel_t"] = draw(st.integers(1, 4))
            cfg["cand_t"] = cfg["sel_t"] + draw(st.integers(0, 5))
            cfg["nt_start"] = draw(st.integers(1, 8))
            cfg["nt"] = max(cfg["nt_start"] + draw(st.integers(0, 14)), cfg["sel_t"])  # a store smaller than one set is not generated
            cfg["bt"] = draw(st.integers(1, cfg["nt_start"]))
        if kind in ("statio", "nonstatio"):
            cfg["sel_x"] = draw(st.integers(1, 4))
            cfg["cand_x"] = cfg["sel_x"] + draw(st.integers(0, 5))
            cfg["n_start"] = draw(st.integers(1, 8))
            cfg["n"] = max(cfg["n_start"] + draw(st.integers(0, 14)), cfg["sel_x"])
            cfg["bx"] = draw(st.integers(1, cfg["n_start"]))
        if kind == "nonstatio":
            # the selection takes the time (space) components of the top max(sel_t, sel_x) pairs
            m = max(cfg["sel_t"], cfg["sel_x"])
            if cfg["cand_t"] * cfg["cand_x"] < m:
                cfg["cand_x"] = m
        cfg["system"] = None
        if kind in ("ode", "statio") and draw(st.integers(0, 2)) == 0:
            # system loss (the selection criterion is the sum over the equations of the squared residual norms);
            # space-time systems are not generated: the library squares the SUM of the residuals there, which the
            # statement does not pin either way
            from .systems import nfeat

            U = draw(st.integers(1, 2))
            names = ["u", "v"][:U]
            cfg["system"] = {
                "unknowns": {n: {"field": draw(field_specs(din, 1, nsin=(1, 2), gauss=False)), "transform": "none"} for n in names},
                "equations": {e: {"coef": [[draw(q16(-2, 2)) for _ in range(nfeat(U, 1))] for _ in range(draw(st.integers(1, 2)))]}
                              for e in ["e1", "e2"][: draw(st.integers(1, 2))]}}
        cfg["iters"] = draw(st.integers(cfg["start"] + cfg["every"] + 1, min(25, cfg["start"] + 4 * cfg["every"] + 4)))
        return cfg

    return s()
