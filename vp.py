#!/venv/bin/python
"""Entry point.  vp.py check <ID> [--tier quick|thorough] [--sub NAME] | replay <file> | selftest ..."""
import argparse
import os
import sys

HERE = os.path.dirname(os.path.abspath(__file__))
sys.path.insert(0, HERE)


def main():
    ap = argparse.ArgumentParser()
    sp = ap.add_subparsers(dest="cmd", required=True)
    c = sp.add_parser("check")
    c.add_argument("prop")
    c.add_argument("--tier", default=os.environ.get("VERIF_TIER", "quick"), choices=["quick", "thorough"])
    c.add_argument("--sub", default=None)
    c.add_argument("--jobs", type=int, default=None)
    r = sp.add_parser("replay")
    r.add_argument("path")
    s = sp.add_parser("selftest")
    s.add_argument("props", nargs="*")
    s.add_argument("--jobs", type=int, default=4)
    a = ap.parse_args()
    from vpkit import runner

    if a.cmd == "check":
        seed = int(os.environ.get("VERIF_SEED", "1"))
        try:
            rc = runner.check(a.prop.upper(), a.tier, seed, a.sub, a.jobs)
        except Exception:  # harness error, never a violation
            import traceback

            traceback.print_exc()
            rc = 2
        sys.exit(rc)
    if a.cmd == "replay":
        sys.exit(runner.replay(a.path))
    if a.cmd == "selftest":
        from vpkit import selftest

        sys.exit(selftest.main(a.props, a.jobs))


if __name__ == "__main__":
    main()
